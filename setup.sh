#!/bin/sh
# Build the fact extractor (nightly, offline) and warm the dependency cache with one extraction.
set -e
cd "$(dirname "$0")"
export CARGO_NET_OFFLINE=true
(cd driver && cargo build --offline 2>&1 | tail -3)
python3 engine/facts.py
