// twin of datagram_not_clone: must compile
#![allow(unused)]
pub fn w(d: wtransport::datagram::Datagram) { let _ = d.payload(); }
