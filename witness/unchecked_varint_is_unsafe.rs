// expect: E0133
// the unchecked VarInt constructor requires unsafe
#![allow(unused)]
pub fn w() { let _ = wtransport_proto::varint::VarInt::from_u64_unchecked(1); }
