// expect: E0599
// the bind address is chosen exactly once
#![allow(unused)]
pub fn w() { let _ = wtransport::ServerConfig::builder().with_bind_default(4433).with_bind_default(4434); }
