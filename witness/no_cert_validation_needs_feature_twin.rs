// twin of no_cert_validation_needs_feature: must compile
#![allow(unused)]
pub fn w() { let _ = wtransport::ClientConfig::builder().with_bind_default().with_native_certs(); }
