// twin of quic_stage_upgrade_no_session: must compile
#![allow(unused)]
use wtransport_proto::stream::biremote::StreamBiRemoteQuic;
pub fn w(s: StreamBiRemoteQuic) { let _ = s.upgrade(); }
