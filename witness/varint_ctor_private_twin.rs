// twin of varint_ctor_private: must compile
#![allow(unused)]
pub fn w() { let _ = wtransport_proto::varint::VarInt::try_from_u64(1u64 << 63); }
