// expect: E0603
// VarInt cannot be built without the range check
#![allow(unused)]
pub fn w() { let _ = wtransport_proto::varint::VarInt(1u64 << 63); }
