// expect: E0599
// SendStream handles cannot be duplicated
#![allow(unused)]
pub fn w(s: wtransport::SendStream) { let _ = s.clone(); }
