// expect: E0599
// a client config cannot be built before a trust policy is chosen
#![allow(unused)]
pub fn w() { let _ = wtransport::ClientConfig::builder().with_bind_default().build(); }
