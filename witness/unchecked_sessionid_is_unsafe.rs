// expect: E0133
// the unchecked SessionId constructor requires unsafe
#![allow(unused)]
use wtransport_proto::ids::{SessionId, StreamId};
use wtransport_proto::varint::VarInt;
pub fn w() { let _ = SessionId::from_session_stream_unchecked(StreamId::new(VarInt::from_u32(0))); }
