// expect: E0599
// a server config cannot be built before an identity is given
#![allow(unused)]
pub fn w() { let _ = wtransport::ServerConfig::builder().with_bind_default(4433).build(); }
