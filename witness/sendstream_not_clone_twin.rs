// twin of sendstream_not_clone: must compile
#![allow(unused)]
pub fn w(s: wtransport::SendStream) { let _ = s.id(); }
