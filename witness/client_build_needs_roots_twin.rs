// twin of client_build_needs_roots: must compile
#![allow(unused)]
pub fn w() { let _ = wtransport::ClientConfig::builder().with_bind_default().with_native_certs().build(); }
