// expect: E0599
// Datagram cannot be duplicated
#![allow(unused)]
pub fn w(d: wtransport::datagram::Datagram) { let _ = d.clone(); }
