// expect: E0599
// RecvStream handles cannot be duplicated
#![allow(unused)]
pub fn w(r: wtransport::RecvStream) { let _ = r.clone(); }
