// expect: E0599
// a locally opened unidirectional stream has no read_frame
#![allow(unused)]
use wtransport_proto::stream::unilocal::StreamUniLocalH3;
pub fn w(s: &mut StreamUniLocalH3, r: &mut &[u8]) { let _ = s.read_frame(r); }
