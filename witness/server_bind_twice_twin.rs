// twin of server_bind_twice: must compile
#![allow(unused)]
pub fn w() { let _ = wtransport::ServerConfig::builder().with_bind_default(4433); }
