// twin of uniremote_h3_no_write_frame: must compile
#![allow(unused)]
use wtransport_proto::stream::uniremote::StreamUniRemoteH3;
pub fn w(s: &mut StreamUniRemoteH3) { let _ = s.kind(); }
