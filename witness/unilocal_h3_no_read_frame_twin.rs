// twin of unilocal_h3_no_read_frame: must compile
#![allow(unused)]
use wtransport_proto::stream::unilocal::StreamUniLocalH3;
pub fn w(s: &mut StreamUniLocalH3) { let _ = s.kind(); }
