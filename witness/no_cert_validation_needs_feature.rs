// expect: E0599
// (default features) with_no_cert_validation does not exist
#![allow(unused)]
pub fn w() { let _ = wtransport::ClientConfig::builder().with_bind_default().with_no_cert_validation(); }
