// twin of datagram_field_private: must compile
#![allow(unused)]
pub fn w(d: wtransport::datagram::Datagram) { let _ = d.payload(); }
