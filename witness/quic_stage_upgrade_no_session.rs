// expect: E0061
// upgrade(session_id) exists only on the H3 stage
#![allow(unused)]
use wtransport_proto::stream::biremote::StreamBiRemoteQuic;
use wtransport_proto::ids::SessionId;
pub fn w(s: StreamBiRemoteQuic, id: SessionId) { let _ = s.upgrade(id); }
