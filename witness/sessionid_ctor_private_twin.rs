// twin of sessionid_ctor_private: must compile
#![allow(unused)]
use wtransport_proto::ids::{SessionId, StreamId};
use wtransport_proto::varint::VarInt;
pub fn w() { let _ = SessionId::try_from_session_stream(StreamId::new(VarInt::from_u32(3))); }
