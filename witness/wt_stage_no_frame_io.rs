// expect: E0599
// the WebTransport stage exposes no HTTP/3 frame I/O
#![allow(unused)]
use wtransport_proto::stream::biremote::StreamBiRemoteWT;
pub fn w(s: &mut StreamBiRemoteWT, r: &mut &[u8]) { let _ = s.read_frame(r); }
