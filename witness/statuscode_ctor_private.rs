// expect: E0603
// StatusCode cannot be built without the range check
#![allow(unused)]
pub fn w() { let _ = wtransport_proto::ids::StatusCode(700); }
