// expect: E0599
// a peer-opened unidirectional stream has no write_frame
#![allow(unused)]
use wtransport_proto::stream::uniremote::StreamUniRemoteH3;
use wtransport_proto::frame::Frame;
pub fn w(s: &mut StreamUniRemoteH3, f: Frame, b: &mut Vec<u8>) { let _ = s.write_frame(f, b); }
