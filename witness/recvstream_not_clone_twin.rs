// twin of recvstream_not_clone: must compile
#![allow(unused)]
pub fn w(r: wtransport::RecvStream) { let _ = r.id(); }
