// expect: E0423
// SessionId cannot be built without the stream-class check
#![allow(unused)]
use wtransport_proto::ids::{SessionId, StreamId};
use wtransport_proto::varint::VarInt;
pub fn w() { let _ = SessionId(StreamId::new(VarInt::from_u32(3))); }
