// twin of unchecked_sessionid_is_unsafe: must compile
#![allow(unused)]
use wtransport_proto::ids::{SessionId, StreamId};
use wtransport_proto::varint::VarInt;
pub fn w() { let _ = unsafe { SessionId::from_session_stream_unchecked(StreamId::new(VarInt::from_u32(0))) }; }
