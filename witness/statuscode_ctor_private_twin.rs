// twin of statuscode_ctor_private: must compile
#![allow(unused)]
pub fn w() { let _ = wtransport_proto::ids::StatusCode::try_from(700u16); }
