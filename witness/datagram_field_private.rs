// expect: E0616
// Datagram's payload offset cannot be changed from outside
#![allow(unused)]
pub fn w(mut d: wtransport::datagram::Datagram) { d.payload_offset = 0; }
