// twin of unchecked_varint_is_unsafe: must compile
#![allow(unused)]
pub fn w() { let _ = unsafe { wtransport_proto::varint::VarInt::from_u64_unchecked(1) }; }
