// twin of server_build_needs_identity: must compile
#![allow(unused)]
pub fn w(i: wtransport::Identity) { let _ = wtransport::ServerConfig::builder().with_bind_default(4433).with_identity(i).build(); }
