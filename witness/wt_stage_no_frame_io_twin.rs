// twin of wt_stage_no_frame_io: must compile
#![allow(unused)]
use wtransport_proto::stream::biremote::StreamBiRemoteWT;
pub fn w(s: &mut StreamBiRemoteWT) { let _ = s.session_id(); }
