"""A small string algebra over the walker's symbolic expressions.

`parts(prog, e)` normalises an expression that builds a string into a tuple of parts

    ('lit', text) | ('val', canon(expr)) | ('fmt', canon(expr), options) | ('opt', canon(subject), some_parts, none_parts)

so that rules can state *what* string is built (`path ++ ("?" ++ query | "")`) instead of *how* it is spelled
(`format!("{}{}", ..)`, `format!("{a}?{b}")`, `String::push_str`, `match`, `Option::map(..).unwrap_or_default()` all
normalise to the same parts).  The decoding of `fmt::Arguments` templates follows library/core/src/fmt/mod.rs of the
toolchain the facts were extracted with (literal pieces: length-prefixed; placeholders: 0b11______ + optional fields;
0 terminates).  Anything the algebra does not understand stays an opaque ('val', ...) part: comparisons against a
reference then fail closed.
"""
from rulelib import canon, walk, nonpanic

IT = ("val", "$it")

import re

# single-argument calls that return the same text as their argument
TRANSPARENT = re.compile(
    r"(^std::hint::must_use$|ToString(>)?::to_string$|ToOwned(>)?::to_owned$|^std::string::String::as_str$|^std::string::String::as_ref$"
    r"|^std::convert::Into::into$|^std::convert::From::from$|^<std::string::String as std::convert::From<&str>>::from$"
    r"|^std::ops::Deref::deref$|^<std::string::String as std::ops::Deref>::deref$|^std::convert::AsRef::as_ref$"
    r"|^std::borrow::Borrow::borrow$|^std::clone::Clone::clone$|^<std::string::String as std::clone::Clone>::clone$"
    r"|^std::str::<impl str>::(to_owned|to_string)$|^std::string::String::from$|^std::string::String::into_boxed_str$"
    r"|^std::borrow::Cow::<'_, str>::into_owned$)")


class CannotDecode(Exception):
    pass


def decode_template(b):
    """-> list of ('lit', str) | ('arg', index or None (= next), options-bytes or None)"""
    out = []
    i = 0
    n = len(b)
    while True:
        if i >= n:
            raise CannotDecode("template not terminated")
        c = b[i]
        i += 1
        if c == 0:
            break
        if c < 0x80:
            out.append(("lit", b[i:i + c].decode("utf-8", "replace")))
            i += c
        elif c == 0x80:
            ln = b[i] | (b[i + 1] << 8)
            i += 2
            out.append(("lit", b[i:i + ln].decode("utf-8", "replace")))
            i += ln
        elif c >= 0xC0:
            opts = b""
            idx = None
            if c & 1:
                opts += bytes(b[i:i + 4]); i += 4
            if c & 2:
                opts += bytes(b[i:i + 2]); i += 2
            if c & 4:
                opts += bytes(b[i:i + 2]); i += 2
            if c & 8:
                idx = b[i] | (b[i + 1] << 8); i += 2
            out.append(("arg", idx, (c, opts) if (c & 0x37) else None))
        else:
            raise CannotDecode("byte 0x%02x" % c)
    return out


def _strip(e):
    while isinstance(e, tuple) and e:
        if e[0] in ("ref", "deref") and len(e) == 2:
            e = e[1]
        elif e[0] == "cast" and len(e) >= 3 and isinstance(e[2], tuple) and "str" in str(e[3] if len(e) > 3 else ""):
            e = e[2]
        else:
            break
    return e


def _merge(ps):
    out = []
    for p in ps:
        if p[0] == "lit":
            if not p[1]:
                continue
            if out and out[-1][0] == "lit":
                out[-1] = ("lit", out[-1][1] + p[1])
                continue
        out.append(p)
    return tuple(out)


def _closure_parts(prog, agg, subst_param=2):
    path = agg[2]
    fn = prog.fn(path)
    ps = nonpanic(walk(fn))
    if len(ps) != 1 or ps[0].leaf[0] != "return":
        return None
    return parts(prog, ps[0].leaf[1], it_param=subst_param)


def parts(prog, e, it_param=None, _d=0):
    if _d > 12:
        return (("val", canon(e)),)
    e = _strip(e)
    if not isinstance(e, tuple) or not e:
        return (("val", canon(e)),)
    k = e[0]
    if k == "c":
        v = e[2]
        if isinstance(v, str):
            return _merge([("lit", v)])
        return (("val", canon(e)),)
    if k == "p" and it_param is not None and e[1] == it_param:
        return (IT,)
    if k == "call":
        name, args = e[1], e[2]
        if TRANSPARENT.search(name) and len(args) == 1:
            return parts(prog, args[0], it_param, _d + 1)
        if name in ("std::fmt::format", "alloc::fmt::format") and len(args) == 1:
            a = _strip(args[0])
            if isinstance(a, tuple) and a[0] == "call" and a[1].endswith("fmt::Arguments::new") and len(a[2]) == 2:
                t = _strip(a[2][0])
                arr = _strip(a[2][1])
                if t[0] == "c" and isinstance(t[2], (bytes, bytearray)) and arr[0] == "agg" and arr[1] == "array":
                    try:
                        tmpl = decode_template(bytes(t[2]))
                    except (CannotDecode, IndexError):
                        return (("val", canon(e)),)
                    ops = arr[5]
                    out = []
                    nxt = 0
                    for piece in tmpl:
                        if piece[0] == "lit":
                            out.append(piece)
                            continue
                        idx = piece[1] if piece[1] is not None else nxt
                        nxt = idx + 1
                        if idx >= len(ops):
                            return (("val", canon(e)),)
                        arg = _strip(ops[idx])
                        if arg[0] == "call" and arg[1].endswith("Argument::new_display") and piece[2] is None:
                            out.extend(parts(prog, arg[2][0], it_param, _d + 1))
                        else:
                            out.append(("fmt", canon(arg), repr(piece[2])))
                    return _merge(out)
            if isinstance(a, tuple) and a[0] == "call" and a[1].endswith("fmt::Arguments::from_str"):
                return parts(prog, a[2][0], it_param, _d + 1)
            return (("val", canon(e)),)
        if name == "std::option::Option::unwrap_or_default" and len(args) == 1:
            inner = _strip(args[0])
            if inner[0] == "call" and inner[1] == "std::option::Option::map" and len(inner[2]) == 2:
                subj, f = inner[2][0], _strip(inner[2][1])
                if f[0] == "agg" and f[1] == "closure":
                    sp = _closure_parts(prog, f)
                    if sp is not None:
                        return (("opt", canon(_strip(subj)), sp, ()),)
            return (("val", canon(e)),)
        if name in ("std::option::Option::map_or", "std::option::Option::map_or_else") and len(args) == 3:
            subj, dflt, f = args[0], args[1], _strip(args[2])
            if f[0] == "agg" and f[1] == "closure":
                sp = _closure_parts(prog, f)
                if sp is not None:
                    dp = parts(prog, dflt, it_param, _d + 1) if name.endswith("map_or") else None
                    if dp is not None:
                        return (("opt", canon(_strip(subj)), sp, dp),)
            return (("val", canon(e)),)
        if name in ("std::string::String::new", "std::default::Default::default") and not args:
            return ()
    if k == "dc" or k == "f":
        return (("val", canon(e)),)
    return (("val", canon(e)),)


def show(ps):
    out = []
    for p in ps:
        if p[0] == "lit":
            out.append(repr(p[1]))
        elif p[0] == "val":
            out.append(p[1])
        elif p[0] == "fmt":
            out.append("fmt(%s,%s)" % (p[1], p[2]))
        else:
            out.append("(%s? %s : %s)" % (p[1], show(p[2]), show(p[3])))
    return " ++ ".join(out) if out else "''"
