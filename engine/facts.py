"""E0 orchestration: run the wtfacts driver over the *current* working tree of the
repository and load the resulting fact files.

The facts are cached by a hash of the tree content (all *.rs, Cargo.toml, Cargo.lock):
an identical tree is not re-extracted for the other checks, a changed tree always is.
Freshness is asserted through a nonce that the driver copies into every fact file.
"""
import fcntl
import hashlib
import json
import os
import shutil
import subprocess
import sys
import time

VERIF = os.path.dirname(os.path.dirname(os.path.abspath(__file__)))
REPO = os.environ.get("WT_REPO", "/repo")
CACHE = os.environ.get("WT_CACHE", os.path.join(VERIF, "cache"))
DRIVER = os.path.join(VERIF, "driver", "target", "debug", "wtfacts")

CONFIGS = {
    # A: superset of code (public quinn accessors + dangerous configuration)
    "A": ["--features", "wtransport/quinn,wtransport/dangerous-configuration"],
    # B: what a default user gets
    "B": [],
}
CRATES = ["wtransport_proto", "wtransport"]


class FactsError(Exception):
    pass


def tree_hash(repo=None):
    repo = repo or REPO
    h = hashlib.sha256()
    files = []
    for root, dirs, fs in os.walk(repo):
        dirs[:] = sorted(d for d in dirs if d not in ("target", ".git"))
        for f in sorted(fs):
            if f.endswith(".rs") or f in ("Cargo.toml", "Cargo.lock"):
                files.append(os.path.join(root, f))
    for p in sorted(files):
        rel = os.path.relpath(p, repo)
        h.update(rel.encode())
        h.update(b"\0")
        with open(p, "rb") as fh:
            h.update(fh.read())
        h.update(b"\0")
    return h.hexdigest()[:24], len(files)


def nightly_sysroot():
    return subprocess.check_output(["rustc", "+nightly", "--print", "sysroot"], text=True).strip()


def build_driver():
    if os.path.exists(DRIVER):
        src_m = max(
            os.path.getmtime(os.path.join(VERIF, "driver", "src", f))
            for f in os.listdir(os.path.join(VERIF, "driver", "src"))
        )
        if os.path.getmtime(DRIVER) >= src_m:
            return
    env = dict(os.environ, CARGO_NET_OFFLINE="true")
    r = subprocess.run(
        ["cargo", "build", "--offline"], cwd=os.path.join(VERIF, "driver"), env=env,
        stdout=subprocess.PIPE, stderr=subprocess.STDOUT, text=True,
    )
    if r.returncode != 0:
        raise FactsError("driver build failed:\n" + r.stdout[-4000:])


def _rm_member_fingerprints(target):
    fp = os.path.join(target, "debug", ".fingerprint")
    if os.path.isdir(fp):
        for d in os.listdir(fp):
            if d.startswith("wtransport-"):
                shutil.rmtree(os.path.join(fp, d), ignore_errors=True)


def _extract_config(repo, tag, outdir, nonce):
    target = os.path.join(CACHE, "target", tag)
    os.makedirs(target, exist_ok=True)
    _rm_member_fingerprints(target)
    env = dict(os.environ)
    env.update(
        LD_LIBRARY_PATH=os.path.join(nightly_sysroot(), "lib"),
        RUSTFLAGS="-Zmir-opt-level=0 -Awarnings",
        RUSTC_WORKSPACE_WRAPPER=DRIVER,
        CARGO_TARGET_DIR=target,
        CARGO_NET_OFFLINE="true",
        WTFACTS_OUT=outdir,
        WTFACTS_TAG=tag,
        WTFACTS_NONCE=nonce,
    )
    env.pop("RUSTC_WRAPPER", None)
    cmd = ["cargo", "+nightly", "check", "--offline", "--locked", "--workspace"] + CONFIGS[tag]
    r = subprocess.run(cmd, cwd=repo, env=env, stdout=subprocess.PIPE, stderr=subprocess.STDOUT, text=True)
    if r.returncode != 0:
        raise FactsError("cargo check (config %s) failed — the tree does not compile:\n%s" % (tag, r.stdout[-6000:]))
    for c in CRATES:
        p = os.path.join(outdir, "%s-%s.json" % (c, tag))
        if not os.path.exists(p):
            raise FactsError("fact file missing after extraction: %s (driver skipped?)\n%s" % (p, r.stdout[-3000:]))
    # keep the crate metadata of exactly this tree for the compile-fail witnesses (E6)
    deps = os.path.join(target, "debug", "deps")
    mdir = os.path.join(outdir, "rmeta-" + tag)
    os.makedirs(mdir, exist_ok=True)
    t_start = os.path.getmtime(os.path.join(outdir, "%s-%s.json" % (CRATES[0], tag))) - 120
    for c in CRATES:
        cands = [os.path.join(deps, f) for f in os.listdir(deps) if f.startswith("lib%s-" % c) and f.endswith(".rmeta")]
        cands = [f for f in cands if os.path.getmtime(f) >= t_start]
        if not cands:
            raise FactsError("rmeta of %s not found after extraction" % c)
        newest = max(cands, key=os.path.getmtime)
        shutil.copy2(newest, os.path.join(mdir, os.path.basename(newest)))
    return target


def ensure_facts(repo=None, verbose=False):
    """Return (factsdir, meta). Extracts when the tree hash has no cached facts."""
    repo = repo or REPO
    os.makedirs(os.path.join(CACHE, "facts"), exist_ok=True)
    build_driver()
    th, nfiles = tree_hash(repo)
    outdir = os.path.join(CACHE, "facts", th)
    meta_p = os.path.join(outdir, "meta.json")
    lock_p = os.path.join(CACHE, "extract.lock")
    with open(lock_p, "w") as lock:
        fcntl.flock(lock, fcntl.LOCK_EX)
        if os.path.exists(meta_p):
            meta = json.load(open(meta_p))
            if meta.get("tree_hash") == th and meta.get("driver_mtime") == os.path.getmtime(DRIVER):
                meta["cached"] = True
                return outdir, meta
            shutil.rmtree(outdir, ignore_errors=True)
        os.makedirs(outdir, exist_ok=True)
        nonce = "%s-%d-%d" % (th, os.getpid(), int(time.time() * 1000))
        t0 = time.time()
        targets = {}
        for tag in CONFIGS:
            targets[tag] = _extract_config(repo, tag, outdir, nonce)
        # freshness assertion
        for tag in CONFIGS:
            for c in CRATES:
                p = os.path.join(outdir, "%s-%s.json" % (c, tag))
                with open(p) as fh:
                    head = fh.read(400)
                if nonce not in head:
                    raise FactsError("stale fact file (nonce mismatch): " + p)
        # the tree must not have changed under us
        th2, _ = tree_hash(repo)
        if th2 != th:
            shutil.rmtree(outdir, ignore_errors=True)
            raise FactsError("repository changed during extraction")
        meta = {
            "tree_hash": th, "nonce": nonce, "files_hashed": nfiles, "repo": repo,
            "extract_s": round(time.time() - t0, 2), "driver_mtime": os.path.getmtime(DRIVER),
            "targets": targets, "cached": False,
        }
        json.dump(meta, open(meta_p, "w"))
        _gc(keep=outdir)
        return outdir, meta


def _gc(keep, maxn=6):
    base = os.path.join(CACHE, "facts")
    ds = [os.path.join(base, d) for d in os.listdir(base)]
    ds = [d for d in ds if os.path.isdir(d) and d != keep]
    ds.sort(key=os.path.getmtime, reverse=True)
    for d in ds[maxn:]:
        shutil.rmtree(d, ignore_errors=True)


_loaded = {}


def load(tag="A", repo=None):
    """Return {crate: facts-dict} for configuration `tag`."""
    outdir, meta = ensure_facts(repo)
    key = (outdir, tag)
    if key in _loaded:
        return _loaded[key], meta
    res = {}
    for c in CRATES:
        with open(os.path.join(outdir, "%s-%s.json" % (c, tag))) as fh:
            d = json.load(fh)
        if d.get("nonce") != meta["nonce"]:
            raise FactsError("nonce mismatch in %s-%s" % (c, tag))
        res[c] = d
    _loaded[key] = res
    return res, meta


if __name__ == "__main__":
    t0 = time.time()
    try:
        d, m = ensure_facts()
    except FactsError as e:
        print("FACTS ERROR:", e)
        sys.exit(2)
    print(d, json.dumps(m), "%.1fs" % (time.time() - t0))
