import sys, facts
from mirlib import Prog
from rulelib import walk, path_sig
f, meta = facts.load(sys.argv[2] if len(sys.argv) > 2 else "A")
prog = Prog(f)
for fn in prog.find(sys.argv[1]):
    if fn.body is None: continue
    print("====", fn.path, fn.at)
    for p in walk(fn):
        a, l = path_sig(p)
        print("   IF", " & ".join(a) or "true"); print("      =>", l)
