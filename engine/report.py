"""Rule-result collection, known-findings handling, evidence and replay files."""
import json
import os
import time

VERIF = os.path.dirname(os.path.dirname(os.path.abspath(__file__)))


class Ctx:
    """Context handed to each property's rule module."""

    def __init__(self, pid, tier, progA, progB, meta, seed=0):
        self.pid = pid
        self.tier = tier
        self.A = progA
        self.B = progB
        self.meta = meta
        self.seed = seed
        self.instances = []      # every evaluated rule instance
        self.violations = []     # dicts with key/what/where
        self.samples = []
        self.assumptions = []
        self.notes = []
        self.floors = {}
        self.analysed = {}
        self.rules = {}          # rule id -> description
        self.t0 = time.time()

    # ---- registration
    def rule(self, rid, text):
        self.rules[rid] = text

    def ok(self, rid, site, detail=None):
        self.instances.append({"rule": rid, "site": site, "status": "ok", "detail": detail})

    def violation(self, rid, key, what, where="?", detail=None):
        """key: stable identifier WITHOUT line numbers; what: human text; where: file:line"""
        full_key = "%s|%s|%s" % (self.pid, rid, key)
        self.instances.append({"rule": rid, "site": key, "status": "violation", "detail": what})
        self.violations.append({"rule": rid, "key": full_key, "what": what, "where": where, "detail": detail})

    def check(self, rid, site, cond, what, where="?", key=None, detail=None):
        if cond:
            self.ok(rid, site, detail)
        else:
            self.violation(rid, key or site, what, where, detail)
        return cond

    def floor(self, rid, name, found, minimum):
        """fail closed when fewer instances than confirmed by hand are matched"""
        self.floors["%s:%s" % (rid, name)] = {"found": found, "floor": minimum}
        if found < minimum:
            self.violation(rid, "floor:%s" % name,
                           "cannot decide: rule %s matched %d instance(s) of '%s', floor is %d (anchor moved or renamed?)"
                           % (rid, found, name, minimum))
            return False
        return True

    def sample(self, s):
        if len(self.samples) < 60:
            self.samples.append(s)

    def assume(self, s):
        if s not in self.assumptions:
            self.assumptions.append(s)

    def note(self, s):
        self.notes.append(s)

    def count(self, name, n=1):
        self.analysed[name] = self.analysed.get(name, 0) + n


def load_known():
    p = os.path.join(VERIF, "known_findings.json")
    if not os.path.exists(p):
        return {"known": [], "fixed": []}
    return json.load(open(p))


def finish(ctx, explanation, not_decided, trusted_base, checker_cmd):
    """Print KNOWN-FINDING / VIOLATION lines, write evidence + replay, return exit code."""
    known = load_known()
    known_keys = {k["key"]: k for k in known.get("known", []) if k.get("property") == ctx.pid}
    new = []
    seen_known = []
    for v in ctx.violations:
        if v["key"] in known_keys:
            seen_known.append(v)
        else:
            new.append(v)
    ev_dir = os.environ.get("WT_EVIDENCE_DIR") or os.path.join(VERIF, "evidence")
    os.makedirs(os.path.join(ev_dir, "replay"), exist_ok=True)
    for v in seen_known:
        k = known_keys[v["key"]]
        print("KNOWN-FINDING: property=%s %s [%s] (%s)" % (ctx.pid, k.get("summary", v["what"]), v["key"], v["where"]))
    replay_path = os.path.join(ev_dir, "replay", "%s.json" % ctx.pid)
    if new:
        json.dump({"property": ctx.pid, "tree_hash": ctx.meta.get("tree_hash"), "violations": new},
                  open(replay_path, "w"), indent=1)
        for v in new:
            print("  violation: [%s] %s @ %s" % (v["key"], v["what"], v["where"]))
        print("VIOLATION property=%s replay=%s" % (ctx.pid, replay_path))
    elif os.path.exists(replay_path):
        os.remove(replay_path)
    n_inst = len(ctx.instances)
    distinct = len({(i["rule"], json.dumps(i["site"], sort_keys=True, default=str)) for i in ctx.instances})
    n_ok = sum(1 for i in ctx.instances if i["status"] == "ok")
    evidence = {
        "property_id": ctx.pid,
        "tier": ctx.tier,
        "seed": ctx.seed,
        "level": "other",
        "coverage": {
            "explanation": explanation,
            "rules": ctx.rules,
            "not_decided": not_decided,
            "evaluations": n_inst,
            "distinct_nontrivial": distinct,
            "rule": "one evaluation = one rule instance bound to a concrete construct of the current tree "
                    "(function, table row, call site, suspension point, constant, witness); distinct = distinct (rule, site) pairs",
            "obligations": n_inst,
            "discharged": n_ok,
            "samples": ctx.samples[:60] or [i for i in ctx.instances[:10]],
            "analysed": dict(ctx.analysed, **{"program_counts": ctx.A.counts if ctx.A else {}}),
            "floors": ctx.floors,
            "known_findings_seen": [v["key"] for v in seen_known],
            "new_violations": [v["key"] for v in new],
            "checker_cmd": checker_cmd,
            "trusted_base": trusted_base,
            "tree_hash": ctx.meta.get("tree_hash"),
            "facts_cached": ctx.meta.get("cached"),
            "notes": ctx.notes,
            "exhaustive": False,
        },
        "assumptions": ctx.assumptions,
        "wall_s": round(time.time() - ctx.t0, 3),
        "violations": len(new),
    }
    json.dump(evidence, open(os.path.join(ev_dir, "%s.json" % ctx.pid), "w"), indent=1, default=str)
    return 1 if new else 0
