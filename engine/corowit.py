"""E5 — coroutine witnesses: what every `async` body holds across each suspension point
(rustc's coroutine layout + upvars not yet moved out), awaitee chains, `select!` sites,
spawn sites. All facts are schedule independent: they hold in every execution."""
import re
from mirlib import AnchorMissing, mac_of, loc_of

# ---- reviewed classification tables (leaf futures), keyed by resolved type / coroutine path ----

# futures whose drop after Pending can lose bytes already consumed from a transport stream
PCF_LEAVES = {
    "wtransport_proto::bytes::r#async::GetVarint": "holds the bytes of a partially read varint in the future",
    "wtransport_proto::bytes::r#async::GetBuffer": "holds the fill offset of a partially read buffer in the future",
    "quinn::recv_stream::ReadExact": "holds the fill offset of a partially filled buffer in the future (bytes already copied)",
    "quinn::ReadExact": "holds the fill offset of a partially filled buffer in the future (bytes already copied)",
    "quinn::RecvStream::read_exact::{closure#0}": "async fn wrapping ReadExact: fill offset lives in the future",
    "quinn::recv_stream::RecvStream::read_exact::{closure#0}": "async fn wrapping ReadExact: fill offset lives in the future",
    "tokio::io::util::read_exact::ReadExact": "holds the fill offset",
}
# per-stream read futures that complete only when the peer sends on that stream (superset of PCF)
PEER_PACED_LEAVES = dict(PCF_LEAVES)
PEER_PACED_LEAVES.update({
    "quinn::recv_stream::Read": "waits for stream data",
    "quinn::Read": "waits for stream data",
    "quinn::RecvStream::read::{closure#0}": "waits for stream data",
    "quinn::recv_stream::ReadChunk": "waits for stream data",
    "quinn::ReadChunk": "waits for stream data",
    "quinn::RecvStream::read_chunk::{closure#0}": "waits for stream data",
    "quinn::recv_stream::ReadToEnd": "waits for stream data",
    "quinn::RecvStream::read_to_end::{closure#0}": "waits for stream data",
})
# cancel-safe leaf futures (dropping them after Pending loses nothing that was consumed)
SAFE_LEAVES = [
    r"^quinn::(recv_stream::)?(Read|ReadChunk|ReadChunks)$",
    r"^quinn::(connection::)?(AcceptUni|AcceptBi|ReadDatagram|OpenUni|OpenBi|SendDatagram|Connecting)$",
    r"^quinn::(send_stream::)?(Stopped|Write|WriteAll|WriteChunk|WriteChunks|WriteAllChunks)$",
    r"^quinn::(incoming::)?IncomingFuture$",
    r"^quinn::(endpoint::)?Accept$",
    r"^std::future::Pending$", r"^std::future::Ready$",
    r"^tokio::sync::(futures|notify)::Notified$",
    # write-side progress futures: irrelevant to *read* progress (a dropped write loses no received byte)
    r"^wtransport_proto::bytes::r#async::(PutVarint|PutBuffer)$",
    r"^tokio::io::util::write_all::WriteAll$",
]
SAFE_FOREIGN_COROUTINES = [
    r"^tokio::sync::mpsc::Receiver::recv::\{closure#0\}$",
    r"^tokio::sync::mpsc::Sender::(reserve|reserve_owned|reserve_inner|send|closed)::\{closure#0\}$",
    r"^tokio::sync::Mutex::(lock|acquire)::\{closure#0\}$",
    r"^tokio::sync::watch::Receiver::(changed|wait_for)::\{closure#0\}$",
    r"^tokio::sync::watch::Sender::closed::\{closure#0\}$",
    r"^quinn::(connection::)?Connection::closed::\{closure#0\}$",
    r"^quinn::(endpoint::)?Endpoint::wait_idle::\{closure#0\}$",
    r"^quinn::(recv_stream::)?RecvStream::(read|read_chunk)::\{closure#0\}$",
    r"^quinn::(send_stream::)?SendStream::(stopped|write|write_all|write_chunk)::\{closure#0\}$",
    r"^tokio::net::lookup_host::\{closure#0\}$",
    r"^tokio::fs::.*$",
]
# wrappers: the awaited thing is the first type argument
TRANSPARENT_WRAPPERS = [r"^tracing::instrument::Instrumented$", r"^std::pin::Pin$", r"^std::future::IntoFuture$",
                        r"^std::boxed::Box$"]
# bounded hand-off resources (a unit of something all streams need)
RESOURCES = {
    "tokio::sync::mpsc::OwnedPermit": "one slot of a bounded hand-off queue",
    "tokio::sync::mpsc::Permit": "one slot of a bounded hand-off queue",
    "tokio::sync::mpsc::bounded::OwnedPermit": "one slot of a bounded hand-off queue",
    "tokio::sync::mpsc::bounded::Permit": "one slot of a bounded hand-off queue",
    "tokio::sync::MutexGuard": "exclusive access to a shared queue/receiver",
    "tokio::sync::OwnedMutexGuard": "exclusive access to a shared queue/receiver",
    "tokio::sync::SemaphorePermit": "semaphore permit",
    "tokio::sync::OwnedSemaphorePermit": "semaphore permit",
    "std::sync::MutexGuard": "exclusive access",
}


def _m(rxs, s):
    return any(re.match(r, s) for r in rxs)


def ty_short(t, depth=0):
    k = t.get("k")
    if depth > 6:
        return "…"
    if k == "adt":
        base = t["did"].split("::")[-1]
        return base + ("<" + ",".join(ty_short(a, depth + 1) for a in t["args"]) + ">" if t.get("args") else "")
    if k == "cor":
        return "async{" + re.sub(r"^wtransport(_proto)?::", "", t["did"]).replace("::{closure#0}", "") + "}"
    if k == "closure":
        return "closure{" + t["did"].split("::")[-2] + "}"
    if k == "tuple":
        return "(" + ",".join(ty_short(a, depth + 1) for a in t["ts"]) + ")"
    if k in ("ref", "ptr"):
        return "&" + ty_short(t["t"], depth + 1)
    if k in ("array", "slice"):
        return "[" + ty_short(t["t"], depth + 1) + "]"
    return t.get("s", k)


class Suspension:
    def __init__(self, coro, variant, fields, at):
        self.coro = coro
        self.variant = variant
        self.fields = fields          # saved locals (dicts from the layout)
        self.at = at
        self.yield_bb = None          # block of the Yield terminator in the pre body (when matched)
        self.held_upvars = []         # upvars (index, name, ty_j) still owned at this point

    @property
    def awaitee(self):
        aw = [f for f in self.fields if f.get("name") == "__awaitee"]
        return aw[0] if len(aw) == 1 else None

    @property
    def is_select(self):
        return any("select" in m for m in mac_of(self.at))

    @property
    def where(self):
        return loc_of(self.at)

    def held_types(self):
        """ty_j of everything owned across this suspension except the awaitee itself"""
        out = [(f.get("name"), f["ty_j"]) for f in self.fields if f.get("name") != "__awaitee"]
        out += [(n, t) for _, n, t in self.held_upvars]
        return out


class Coro:
    def __init__(self, fn):
        self.fn = fn
        self.path = fn.path
        self.layout = fn.layout
        self.susp = []
        if not self.layout:
            return
        fields = self.layout["fields"]
        for v in self.layout["variants"]:
            if v["v"] < 3:
                continue
            self.susp.append(Suspension(self, v["v"], [fields[i] for i in v["fields"]], v["at"]))
        self._match_yields()

    def upvars(self):
        body = self.fn.body
        if not body:
            return []
        t = body["locals"][1]["ty_j"]
        while t.get("k") in ("ref", "ptr"):
            t = t["t"]
        if t.get("k") == "adt" and t["did"].endswith("Pin") and t.get("args"):
            t = t["args"][0]
            while t.get("k") in ("ref", "ptr"):
                t = t["t"]
        ups = t.get("upvars", []) if t.get("k") == "cor" else []
        names = {}
        for u in body.get("upnames", []):
            fs = [p["f"] for p in u["pl"]["p"] if isinstance(p, dict) and "f" in p]
            if u["pl"]["l"] == 1 and len(fs) == 1:
                names[fs[0]] = u["name"]
        return [(i, names.get(i, "upvar%d" % i), ty) for i, ty in enumerate(ups)]

    def _match_yields(self):
        body = self.fn.body
        if not body:
            return
        cfg = self.fn.cfg
        yields = [(bi, bb["t"]["at"]) for bi, bb in enumerate(body["blocks"]) if bb["t"]["k"] == "yield" and bi in cfg.reach]

        def key(at):
            return (at.get("sp"), at.get("raw"))
        by = {}
        for bi, at in yields:
            by.setdefault(key(at), []).append(bi)
        used = {}
        for s in self.susp:
            k = key(s.at)
            lst = by.get(k, [])
            n = used.get(k, 0)
            if n < len(lst):
                s.yield_bb = lst[n]
                used[k] = n + 1
        # upvars moved out in a block dominating the yield are no longer held
        ups = self.upvars()
        moves = {}  # upvar index -> blocks where `move _1.i` occurs
        for bi, bb in enumerate(body["blocks"]):
            ops = []
            for st in bb["s"]:
                if st["k"] == "assign":
                    ops += _operands_of_rvalue(st["rv"])
            t = bb["t"]
            if t["k"] == "call":
                ops += t["args"]
            for o in ops:
                if isinstance(o, dict) and o.get("k") == "move":
                    pl = o["pl"]
                    if pl["l"] == 1 and len(pl["p"]) == 1 and isinstance(pl["p"][0], dict) and "f" in pl["p"][0]:
                        moves.setdefault(pl["p"][0]["f"], []).append(bi)
        for s in self.susp:
            held = []
            for i, name, ty in ups:
                released = False
                if s.yield_bb is not None:
                    for mb in moves.get(i, []):
                        if mb != s.yield_bb and cfg.dominates(mb, s.yield_bb):
                            released = True
                held.append((i, name, ty)) if not released else None
            s.held_upvars = held


def _operands_of_rvalue(rv):
    k = rv["k"]
    if k in ("use", "cast", "repeat"):
        return [rv["op"]]
    if k == "bin":
        return [rv["a"], rv["b"]]
    if k == "un":
        return [rv["a"]]
    if k == "agg":
        return list(rv["ops"])
    return []


class CoroIndex:
    def __init__(self, prog):
        self.prog = prog
        self.coros = {}
        for fn in prog.fn_list:
            if fn.is_coroutine and fn.layout:
                self.coros[fn.path] = Coro(fn)

    def get(self, path):
        c = self.coros.get(path)
        if c is None:
            raise AnchorMissing("coroutine not found: " + path)
        return c

    def find1(self, regex):
        l = [c for p, c in self.coros.items() if re.search(regex, p)]
        if len(l) != 1:
            raise AnchorMissing("expected one coroutine matching /%s/, found %d" % (regex, len(l)))
        return l[0]

    # ---- awaitee chain classification
    def classify(self, ty, table="pcf", _seen=None, _chain=None):
        """Follow what a future awaits, transitively. Returns list of findings
        [(kind, chain)] with kind in {'hit','unknown'}; empty list = safe.
        table: 'pcf' (progress-carrying) or 'peer' (peer-paced per-stream read)"""
        leaves = PCF_LEAVES if table == "pcf" else PEER_PACED_LEAVES
        seen = _seen if _seen is not None else set()
        chain = list(_chain or [])
        k = ty.get("k")
        if k in ("ref", "ptr"):
            return self.classify(ty["t"], table, seen, chain)
        if k == "adt":
            did = ty["did"]
            if did in leaves:
                return [("hit", chain + [did])]
            if _m(SAFE_LEAVES, did):
                return []
            if _m(TRANSPARENT_WRAPPERS, did) and ty.get("args"):
                return self.classify(ty["args"][0], table, seen, chain)
            if did == "std::future::PollFn" and ty.get("args"):
                # poll_fn(closure): the polled futures are reachable through the closure's captures
                return self.classify(ty["args"][0], table, seen, chain + ["poll_fn"])
            if did in ("std::option::Option",) and ty.get("args"):
                return self.classify(ty["args"][0], table, seen, chain)
            return [("unknown", chain + [did])]
        if k == "closure":
            out = []
            for u in ty.get("upvars", []):
                out += self.classify_container(u, table, seen, chain)
            return out
        if k == "cor":
            did = ty["did"]
            if did in seen:
                return []
            seen = seen | {did}
            if did in leaves:
                return [("hit", chain + [did])]
            c = self.coros.get(did)
            if c is None:
                if _m(SAFE_FOREIGN_COROUTINES, did):
                    return []
                return [("unknown", chain + [did])]
            out = []
            for s in c.susp:
                aw = s.awaitee
                if aw is None:
                    out.append(("unknown", chain + [did, "suspension without unique awaitee @%s" % s.where]))
                    continue
                sub = chain + [did]
                if s.is_select:
                    fut = [f for f in s.fields if f.get("name") == "futures"]
                    if len(fut) != 1 or fut[0]["ty_j"].get("k") != "tuple":
                        out.append(("unknown", sub + ["select without futures tuple"]))
                        continue
                    for b in fut[0]["ty_j"]["ts"]:
                        out += self.classify(b, table, seen, sub + ["select"])
                else:
                    out += self.classify(aw["ty_j"], table, seen, sub)
            return out
        if k == "tuple":
            out = []
            for t in ty["ts"]:
                out += self.classify(t, table, seen, chain)
            return out
        if k == "dyn" or k == "param" or k == "other" or k == "deep":
            return [("unknown", chain + [ty.get("s", k)])]
        return []

    def classify_container(self, ty, table, seen, chain):
        """a captured variable of a poll_fn closure: `&mut (fut1, fut2, ..)` / `&mut u8` etc."""
        k = ty.get("k")
        if k in ("ref", "ptr"):
            return self.classify_container(ty["t"], table, seen, chain)
        if k == "tuple":
            out = []
            for t in ty["ts"]:
                out += self.classify(t, table, seen, chain)
            return out
        if k == "prim":
            return []
        if k in ("cor", "adt", "closure"):
            if k == "adt" and not self._looks_like_future(ty):
                return []
            return self.classify(ty, table, seen, chain)
        return []

    @staticmethod
    def _looks_like_future(ty):
        did = ty.get("did", "")
        return did in PCF_LEAVES or did in PEER_PACED_LEAVES or _m(SAFE_LEAVES, did) or _m(TRANSPARENT_WRAPPERS, did) or did == "std::future::PollFn"

    # ---- containment of resource / value types in what is held
    def contains(self, ty, pred, through_local_adts=True, _depth=0, _seen=None):
        """does the type tree own a value whose ADT path satisfies pred? Descends through tuples,
        arrays, Option/Result/Box, local ADT generic arguments, closures' and local coroutines' state.
        Does not descend through references or foreign container generics."""
        seen = _seen if _seen is not None else set()
        if _depth > 10:
            return None
        k = ty.get("k")
        if k == "adt":
            did = ty["did"]
            r = pred(did)
            if r:
                return did
            if did in ("std::option::Option", "std::result::Result", "std::boxed::Box", "tracing::instrument::Instrumented",
                       "std::pin::Pin", "std::mem::ManuallyDrop", "std::mem::MaybeUninit") or (ty.get("local") and through_local_adts):
                for a in ty.get("args", []):
                    x = self.contains(a, pred, through_local_adts, _depth + 1, seen)
                    if x:
                        return x
            return None
        if k in ("tuple",):
            for a in ty["ts"]:
                x = self.contains(a, pred, through_local_adts, _depth + 1, seen)
                if x:
                    return x
            return None
        if k in ("array", "slice"):
            return self.contains(ty["t"], pred, through_local_adts, _depth + 1, seen)
        if k == "closure":
            for a in ty.get("upvars", []):
                x = self.contains(a, pred, through_local_adts, _depth + 1, seen)
                if x:
                    return x
            return None
        if k == "cor":
            did = ty["did"]
            if did in seen:
                return None
            seen = seen | {did}
            for a in ty.get("upvars", []):
                x = self.contains(a, pred, through_local_adts, _depth + 1, seen)
                if x:
                    return x
            c = self.coros.get(did)
            if c is not None:
                for s in c.susp:
                    for f in s.fields:
                        x = self.contains(f["ty_j"], pred, through_local_adts, _depth + 1, seen)
                        if x:
                            return x
            return None
        return None

    def awaited_local(self, did, _seen=None):
        """local coroutines awaited (transitively, also through select! branches) by coroutine `did`"""
        seen = _seen if _seen is not None else set()
        if did in seen or did not in self.coros:
            return seen
        seen.add(did)
        c = self.coros[did]

        def cors(ty):
            k = ty.get("k")
            if k == "cor":
                yield ty["did"]
            elif k == "adt":
                for a in ty.get("args", []):
                    yield from cors(a)
            elif k == "tuple":
                for a in ty["ts"]:
                    yield from cors(a)
            elif k in ("ref", "ptr"):
                yield from cors(ty["t"])
            elif k == "closure":
                for a in ty.get("upvars", []):
                    yield from cors(a)
        for s in c.susp:
            tys = []
            if s.awaitee:
                tys.append(s.awaitee["ty_j"])
            if s.is_select:
                tys += [f["ty_j"] for f in s.fields if f.get("name") == "futures"]
            for t in tys:
                for d in cors(t):
                    self.awaited_local(d, seen)
        return seen

    # ---- select / spawn sites
    def select_sites(self):
        out = []
        for c in self.coros.values():
            for s in c.susp:
                if s.is_select:
                    out.append(s)
        return out

    def select_info(self, s):
        """(in_loop, fresh_per_iteration, branches[ty_j]) for a select suspension"""
        fn = s.coro.fn
        cfg = fn.cfg
        fut = [f for f in s.fields if f.get("name") == "futures"]
        branches = fut[0]["ty_j"]["ts"] if len(fut) == 1 and fut[0]["ty_j"].get("k") == "tuple" else None
        in_loop = None
        fresh = None
        if s.yield_bb is not None:
            scc = cfg.cycle_of(s.yield_bb)
            # the await desugaring itself is a loop (poll / yield / resume); a *user* loop is a
            # larger cycle that also contains the block assigning the futures tuple or other calls
            body = fn.body
            fut_local = [i for i, l in enumerate(body["locals"]) if l.get("name") == "futures" and l["ty_j"].get("k") == "tuple"]
            assign_bbs = []
            for bi, bb in enumerate(body["blocks"]):
                for st in bb["s"]:
                    if st["k"] == "assign" and not st["pl"]["p"] and st["pl"]["l"] in fut_local and st["rv"]["k"] == "agg":
                        assign_bbs.append(bi)
            scc = scc or set()
            fresh = any(ab in scc for ab in assign_bbs)
            other_calls = [b for b in scc if body["blocks"][b]["t"]["k"] == "call"
                           and "desugar:Await" not in mac_of(body["blocks"][b]["t"]["at"])
                           and not any("select" in m for m in mac_of(body["blocks"][b]["t"]["at"]))]
            in_loop = fresh or bool(other_calls)
        return in_loop, fresh, branches

    def spawn_sites(self):
        """(caller fn, call terminator, spawned coroutine did or None)"""
        out = []
        for fn in self.prog.fn_list:
            body = fn.body
            if not body:
                continue
            for bi, bb in enumerate(body["blocks"]):
                t = bb["t"]
                if t["k"] == "call" and re.match(r"^tokio::(task::)?(spawn::)?spawn$", t["f"].get("path", "")):
                    tj = t["f"].get("targs_j", [])
                    cor = self._find_cor(tj[0]) if tj else None
                    out.append((fn, t, cor))
        return out

    def _find_cor(self, ty):
        k = ty.get("k")
        if k == "cor":
            return ty["did"]
        if k == "adt":
            for a in ty.get("args", []):
                r = self._find_cor(a)
                if r:
                    return r
        return None
