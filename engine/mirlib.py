"""E1 — program index and CFG utilities over the facts produced by the wtfacts driver."""
import re
import sys

sys.setrecursionlimit(100000)


class AnchorMissing(Exception):
    """A function / constant / type a rule is anchored in cannot be found: fail closed."""


class Fn:
    def __init__(self, raw, crate):
        self.raw = raw
        self.crate = crate
        self.path = raw["path"]
        self.is_coroutine = raw.get("coroutine", False)
        if self.is_coroutine:
            # logical (pre state-transform) body with Yield terminators
            self.body = raw.get("pre")
        else:
            self.body = raw.get("body")
        self.post = raw.get("post")
        self.layout = raw.get("layout")
        self.at = raw.get("at", {}).get("sp", "?")
        self._cfg = None

    @property
    def cfg(self):
        if self._cfg is None:
            self._cfg = CFG(self.body)
        return self._cfg

    def __repr__(self):
        return "Fn(%s)" % self.path


PROGS = []


class Prog:
    """Index over the fact files of one configuration (both crates)."""

    def __init__(self, facts):
        PROGS.append(self)
        self.facts = facts
        self.fns = {}
        self.fn_list = []
        self.consts = {}
        self.adts = {}
        self.impls = []
        self.counts = {}
        for crate, d in facts.items():
            self.counts[crate] = d["counts"]
            for f in d["fns"]:
                fn = Fn(f, crate)
                fn.prog = self
                self.fn_list.append(fn)
                self.fns.setdefault(fn.path, []).append(fn)
            for c in d["consts"]:
                self.consts.setdefault(c["path"], []).append(c)
            for a in d["adts"]:
                self.adts[a["path"]] = a
            for i in d["impls"]:
                i = dict(i, crate=crate)
                self.impls.append(i)

    # ---- lookups (fail closed)
    def fn(self, path):
        l = self.fns.get(path)
        if not l:
            raise AnchorMissing("function not found: " + path)
        if len(l) > 1:
            raise AnchorMissing("ambiguous function path (%d): %s" % (len(l), path))
        return l[0]

    def fn_opt(self, path):
        l = self.fns.get(path)
        return l[0] if l and len(l) == 1 else None

    def find(self, regex):
        r = re.compile(regex)
        return [f for f in self.fn_list if r.search(f.path)]

    def find1(self, regex):
        l = self.find(regex)
        if len(l) != 1:
            raise AnchorMissing("expected exactly one function matching /%s/, found %d: %s"
                                % (regex, len(l), [f.path for f in l][:8]))
        return l[0]

    def const(self, path):
        l = self.consts.get(path)
        if not l or len(l) != 1:
            raise AnchorMissing("constant not found / ambiguous: " + path)
        return l[0]

    def adt(self, path):
        a = self.adts.get(path)
        if a is None:
            raise AnchorMissing("type not found: " + path)
        return a

    def impls_of(self, trait_suffix=None, self_re=None):
        out = []
        for i in self.impls:
            if trait_suffix is not None and not (i.get("trait") or "").endswith(trait_suffix):
                continue
            if self_re is not None and not re.search(self_re, i["self"]):
                continue
            out.append(i)
        return out


# ----------------------------------------------------------------------------- CFG


def term_succs(t, unwind=False):
    k = t["k"]
    out = []
    if k == "goto":
        out = [t["t"]]
    elif k == "switch":
        out = [a[1] for a in t["arms"]] + [t["otherwise"]]
    elif k in ("drop", "assert"):
        out = [t["t"]]
    elif k == "call":
        out = [t["t"]] if t["t"] is not None else []
    elif k == "yield":
        out = [t["resume"]]
        if unwind and t.get("drop") is not None:
            out.append(t["drop"])
    if unwind and t.get("unwind") is not None:
        out.append(t["unwind"])
    # dedupe, keep order
    seen = []
    for o in out:
        if o not in seen:
            seen.append(o)
    return seen


class CFG:
    def __init__(self, body):
        self.body = body
        self.blocks = body["blocks"]
        n = len(self.blocks)
        self.n = n
        self.succ = [term_succs(b["t"]) for b in self.blocks]
        self.pred = [[] for _ in range(n)]
        for i, ss in enumerate(self.succ):
            for s in ss:
                self.pred[s].append(i)
        self.reach = self._reach(0)
        self._dom = None
        self._pdom = None
        self._scc = None

    def _reach(self, start):
        seen = {start}
        st = [start]
        while st:
            x = st.pop()
            for s in self.succ[x]:
                if s not in seen:
                    seen.add(s)
                    st.append(s)
        return seen

    def reach_from(self, start, avoid=()):
        seen = {start}
        st = [start]
        while st:
            x = st.pop()
            for s in self.succ[x]:
                if s not in seen and s not in avoid:
                    seen.add(s)
                    st.append(s)
        return seen

    # --- dominators (iterative, Cooper-Harvey-Kennedy)
    @staticmethod
    def _idom(n, entry, succ, pred):
        order = []
        seen = set()

        def dfs(x):
            st = [(x, iter(succ[x]))]
            seen.add(x)
            while st:
                node, it = st[-1]
                adv = False
                for s in it:
                    if s not in seen:
                        seen.add(s)
                        st.append((s, iter(succ[s])))
                        adv = True
                        break
                if not adv:
                    order.append(node)
                    st.pop()

        dfs(entry)
        rpo = list(reversed(order))
        idx = {b: i for i, b in enumerate(rpo)}
        idom = {entry: entry}
        changed = True
        while changed:
            changed = False
            for b in rpo[1:]:
                ps = [p for p in pred[b] if p in idom]
                if not ps:
                    continue
                new = ps[0]
                for p in ps[1:]:
                    a, c = p, new
                    while a != c:
                        while idx[a] > idx[c]:
                            a = idom[a]
                        while idx[c] > idx[a]:
                            c = idom[c]
                    new = a
                if idom.get(b) != new:
                    idom[b] = new
                    changed = True
        return idom

    @property
    def idom(self):
        if self._dom is None:
            self._dom = self._idom(self.n, 0, self.succ, self.pred)
        return self._dom

    def dominates(self, a, b):
        """a dominates b (reflexive)"""
        idom = self.idom
        if b not in idom:
            return False
        x = b
        while True:
            if x == a:
                return True
            if idom[x] == x:
                return False
            x = idom[x]

    @property
    def ipdom(self):
        """immediate post-dominators with a virtual exit node n joining every block
        without successors (return / unreachable / diverging call / resume)."""
        if self._pdom is None:
            n = self.n
            exit_ = n
            rsucc = [list(p) for p in self.pred] + [[]]
            rpred = [list(s) for s in self.succ] + [[]]
            for i in range(n):
                if not self.succ[i]:
                    rsucc[exit_].append(i)
                    rpred[i].append(exit_)
            self._pdom = self._idom(n + 1, exit_, rsucc, rpred)
        return self._pdom

    def postdominates(self, a, b):
        ip = self.ipdom
        if b not in ip:
            return False
        x = b
        while True:
            if x == a:
                return True
            if ip[x] == x:
                return False
            x = ip[x]

    @property
    def sccs(self):
        """list of SCCs (each a set) that are real cycles (size>1 or self-loop)"""
        if self._scc is None:
            index = {}
            low = {}
            onst = set()
            st = []
            res = []
            counter = [0]

            def strong(v):
                work = [(v, 0)]
                while work:
                    node, pi = work.pop()
                    if pi == 0:
                        index[node] = low[node] = counter[0]
                        counter[0] += 1
                        st.append(node)
                        onst.add(node)
                    recurse = False
                    succs = self.succ[node]
                    for i in range(pi, len(succs)):
                        w = succs[i]
                        if w not in index:
                            work.append((node, i + 1))
                            work.append((w, 0))
                            recurse = True
                            break
                        elif w in onst:
                            low[node] = min(low[node], index[w])
                    if recurse:
                        continue
                    if low[node] == index[node]:
                        comp = set()
                        while True:
                            w = st.pop()
                            onst.discard(w)
                            comp.add(w)
                            if w == node:
                                break
                        if len(comp) > 1 or node in self.succ[node]:
                            res.append(comp)
                    if work:
                        parent = work[-1][0]
                        low[parent] = min(low[parent], low[node])

            for v in sorted(self.reach):
                if v not in index:
                    strong(v)
            self._scc = res
        return self._scc

    @property
    def loops(self):
        """natural loops: {header: set(body blocks)} from back edges t->h with h dominating t"""
        if getattr(self, "_loops", None) is None:
            loops = {}
            for t in sorted(self.reach):
                for h in self.succ[t]:
                    if h in self.idom and self.dominates(h, t):
                        body = loops.setdefault(h, {h})
                        st = [t]
                        while st:
                            x = st.pop()
                            if x in body:
                                continue
                            body.add(x)
                            for p in self.pred[x]:
                                if p in self.reach:
                                    st.append(p)
            self._loops = loops
        return self._loops

    def loop_assigned(self, header):
        """(locals assigned, has projected store) inside the natural loop of `header`"""
        cache = getattr(self, "_la", None)
        if cache is None:
            cache = self._la = {}
        if header in cache:
            return cache[header]
        loc = set()
        store = False
        for b in self.loops.get(header, ()):
            bb = self.blocks[b]
            for s in bb["s"]:
                if s["k"] == "assign":
                    if s["pl"]["p"]:
                        store = True
                        if "*" in s["pl"]["p"]:
                            continue  # store through a pointer: the pointer local itself is unchanged
                    loc.add(s["pl"]["l"])
            t = bb["t"]
            if t["k"] == "call":
                if t["dest"]["p"]:
                    store = True
                loc.add(t["dest"]["l"])
            if t["k"] == "yield":
                loc.add(t["resume_arg"]["l"])
        cache[header] = (loc, store)
        return cache[header]

    def in_cycle(self, bb):
        return any(bb in c for c in self.sccs)

    def cycle_of(self, bb):
        best = None
        for c in self.sccs:
            if bb in c:
                if best is None or len(c) < len(best):
                    best = c
        return best


def mac_of(at):
    return at.get("mac", []) if isinstance(at, dict) else []


def loc_of(at):
    return at.get("sp", "?") if isinstance(at, dict) else "?"


def callee_name(f):
    """best name of a call target: resolved impl method if known, else the declared path"""
    return f.get("resolved") or f.get("path") or ("<indirect>")


def iter_calls(body):
    for bi, bb in enumerate(body["blocks"]):
        t = bb["t"]
        if t["k"] == "call":
            yield bi, t


def short_path(p):
    """human-oriented shortening of a def path (drop crate + module prefixes of each segment)"""
    return re.sub(r"\b(?:[a-z_][a-z0-9_#]*::)+", "", p)
