import sys, facts
sys.path.insert(0,'/verif/engine')
from mirlib import Prog
from rulelib import walk, path_sig, event_strs
f, meta = facts.load("A")
prog = Prog(f)
for fn in prog.find(sys.argv[1]):
    if fn.body is None: continue
    print("====", fn.path, fn.at)
    for p in walk(fn):
        a, l = path_sig(p)
        print("   IF", " & ".join(a) or "true"); print("      EV", " ; ".join(event_strs(p))); print("      =>", l)
