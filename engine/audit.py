#!/usr/bin/env python3
"""Blind-spot audit: run the rule modules in-process against the current tree and list the library functions (with a body, outside
tests) whose MIR no rule walked — neither directly nor through inlining.  A function listed here can change without any check
noticing; the list is what DESIGN.md §9 reports as uncovered.  usage: audit.py [C01 C02 ...]   (WT_REPO selects the tree)"""
import importlib, json, os, re, sys
sys.path.insert(0, os.path.dirname(os.path.abspath(__file__)))
import facts, mirlib, report, pathwalk

pids = [a for a in sys.argv[1:] if re.match(r"^C\d\d$", a)] or ["C%02d" % i for i in range(1, 21)]
fa, meta = facts.load("A")
fb, _ = facts.load("B")
A = mirlib.Prog(fa)
B = mirlib.Prog(fb)
per = {}
for pid in pids:
    pathwalk.WALKED.clear()
    ctx = report.Ctx(pid, "quick", A, B, meta, 0)
    mod = importlib.import_module("rules.%s" % pid)
    try:
        mod.run(ctx)
    except Exception as e:
        print("!!", pid, type(e).__name__, e)
    per[pid] = set(x for x in pathwalk.WALKED if x)
allw = set().union(*per.values())
local = [f for f in A.fn_list if f.body and "::tests::" not in f.path and not f.path.startswith("<") or (f.body and f.path.startswith("<wtransport"))]
un = sorted({f.path for f in local if f.path not in allw and "::tests::" not in f.path})
print("functions with a body: %d; walked by at least one rule: %d; never walked: %d" % (len({f.path for f in local}), len({f.path for f in local} & allw), len(un)))
for u in un:
    print("  ", u)
json.dump({"per_property": {k: sorted(v) for k, v in per.items()}, "never_walked": un}, open(os.environ.get("WT_AUDIT_OUT", "/tmp/wt-audit.json"), "w"), indent=1)
