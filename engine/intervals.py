"""R3 helper: integer bounds of an expression implied by the guards on a path (syntactic)."""
import re
from pathwalk import const_val, strip_refs
from rulelib import mem_fields

WIDEN = re.compile(r"<impl (std::convert::)?From<u(8|16|32)> for u(16|32|64|size)>::from$|^std::convert::From::from$|^<u(16|32|64|size) as std::convert::From<u(8|16|32)>>::from$")


PURE_GETTERS = re.compile(r"(VarInt::into_inner|SessionId::into_u64|StreamId::into_u64|QStreamId::into_u64|::into_varint|StatusCode::into_inner)$")


def core(e):
    """strip references, lossless widenings and no-op casts; calls of pure getters on the same
    (immutable, by-value) argument are identified regardless of the call site"""
    while isinstance(e, tuple):
        if e[0] in ("ref", "deref"):
            e = e[1]
        elif e[0] == "cast" and e[1] in ("IntToInt",):
            e = e[2]
        elif e[0] == "call" and WIDEN.search(e[1]) and len(e[2]) == 1:
            e = e[2][0]
        else:
            break
    if isinstance(e, tuple) and e[0] == "call" and PURE_GETTERS.search(e[1]) and len(e) > 3:
        return ("call", e[1], tuple(core(a) for a in e[2]), 0)
    return e


def cval(e):
    e = core(e)
    if isinstance(e, tuple) and e[0] == "call" and re.match(r"^<(u8|u16|u32|u64|usize) as std::default::Default>::default$", e[1]):
        return 0
    v = const_val(e)
    return v if isinstance(v, int) and not isinstance(v, bool) else None


def bounds(atoms, x):
    """(lo, hi) inclusive bounds on x implied by the path's atoms; None where unbounded"""
    x = core(x)
    lo, hi = None, None

    def upd(nlo, nhi):
        nonlocal lo, hi
        if nlo is not None:
            lo = nlo if lo is None else max(lo, nlo)
        if nhi is not None:
            hi = nhi if hi is None else min(hi, nhi)
    for a in atoms:
        if a[0] == "cmp":
            op, l, r = a[1], core(a[2]), core(a[3])
            if l == x and cval(r) is not None:
                c = cval(r)
                if op == "Ge":
                    upd(c, None)
                elif op == "Gt":
                    upd(c + 1, None)
                elif op == "Le":
                    upd(None, c)
                elif op == "Lt":
                    upd(None, c - 1)
                elif op == "Eq":
                    upd(c, c)
            elif r == x and cval(l) is not None:
                c = cval(l)
                if op == "Le":
                    upd(c, None)
                elif op == "Lt":
                    upd(c + 1, None)
                elif op == "Ge":
                    upd(None, c)
                elif op == "Gt":
                    upd(None, c - 1)
                elif op == "Eq":
                    upd(c, c)
        elif a[0] == "cond" and a[2] is True:
            e = a[1]
            if isinstance(e, tuple) and e[0] == "call" and re.search(r"Range(Inclusive)?(<.*>)?::contains$", e[1]) and len(e[2]) == 2:
                rng, item = e[2]
                if core(item) == x:
                    mf = mem_fields(strip_refs(rng))
                    if mf and mf[0] == "RangeInclusive" and len(mf[1]) >= 2 and (len(mf[1]) < 3 or not mf[1][2]):
                        upd(mf[1][0], mf[1][1])
                    elif mf and mf[0] == "Range" and len(mf[1]) >= 2:
                        upd(mf[1][0], mf[1][1] - 1)
        elif a[0] == "eq" and core(a[1]) == x:
            upd(a[2], a[2])
    return lo, hi
