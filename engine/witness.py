"""E6 — compile-fail witnesses with compiling twins: a violating program, written as an external
user of the crates, must be rejected by rustc with exactly the expected error code; its twin
(differing only in the offending line) must compile, so a witness that fails for the wrong reason
(moved path, renamed item) is caught."""
import json
import os
import re
import subprocess
import tempfile

import facts

VERIF = os.path.dirname(os.path.dirname(os.path.abspath(__file__)))
WDIR = os.path.join(VERIF, "witness")
INDEX = json.load(open(os.path.join(WDIR, "index.json")))


def _rustc(src, tag, factsdir, meta):
    mdir = os.path.join(factsdir, "rmeta-" + tag)
    deps = os.path.join(facts.CACHE, "target", tag, "debug", "deps")
    ext = []
    for f in os.listdir(mdir):
        m = re.match(r"^lib(wtransport(_proto)?)-.*\.rmeta$", f)
        if m:
            ext += ["--extern", "%s=%s" % (m.group(1), os.path.join(mdir, f))]
    out = tempfile.mkdtemp(prefix="wtw-", dir=os.path.join(facts.CACHE))
    try:
        env = dict(os.environ, LD_LIBRARY_PATH=os.path.join(facts.nightly_sysroot(), "lib"))
        r = subprocess.run(["rustc", "+nightly", "--edition", "2021", "--crate-type", "lib", "--emit=metadata", "--error-format=short",
                            "-L", "dependency=" + mdir, "-L", "dependency=" + deps, "--out-dir", out] + ext + [src],
                           stdout=subprocess.PIPE, stderr=subprocess.STDOUT, text=True, env=env)
    finally:
        subprocess.run(["rm", "-rf", out])
    codes = re.findall(r"error\[(E\d{4})\]", r.stdout)
    return r.returncode, codes, r.stdout


def run(ctx, rid, props):
    """run every witness of the given properties"""
    factsdir, meta = facts.ensure_facts()
    n = 0
    for name, w in sorted(INDEX.items()):
        if w["property"] not in props:
            continue
        n += 1
        tag = w["config"]
        rc_t, codes_t, out_t = _rustc(os.path.join(WDIR, name + "_twin.rs"), tag, factsdir, meta)
        if rc_t != 0:
            ctx.violation(rid, "witness:%s|twin" % name, "cannot decide: the compiling twin of witness `%s` does not compile (API moved?): %s" % (name, out_t[-400:]), "witness/%s_twin.rs" % name)
            continue
        rc, codes, out = _rustc(os.path.join(WDIR, name + ".rs"), tag, factsdir, meta)
        okk = rc != 0 and codes and set(codes) == {w["expect"]}
        ctx.check(rid, "witness:%s" % name, okk,
                  "the violating program `%s` (%s) %s; expected rustc to reject it with %s" % (name, w["what"], "COMPILES" if rc == 0 else "fails with %s" % sorted(set(codes)), w["expect"]),
                  "witness/%s.rs" % name, detail="rustc: %s" % (sorted(set(codes)) or "ok"))
        ctx.sample({"rule": rid, "witness": name, "shows": w["what"], "rustc": sorted(set(codes)), "twin": "compiles"})
    return n
