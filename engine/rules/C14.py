"""C14 — encoding and decoding are exact inverses with exact sizes."""
import re
from rules import shared
from rules.shared import SPEC
from rulelib import walk, match_table, nonpanic, path_sig, event_strs, where, depth_limit, canon, const_int
from pathwalk import const_val
import intervals

EXPLANATION = ("Structural necessary conditions of the round-trip law: VarInt::size / parse_size / MAX / MAX_SIZE equal RFC 9000 §16; parse/id "
               "pairs of FrameKind, StreamKind, SettingId map the same constants in both directions; writer sequence == write_size terms == reader "
               "sequence for Frame, StreamHeader and Datagram (field by field); write_async == write; a too-small destination is untouched "
               "(the first put_* is dominated by capacity >= write_size); SETTINGS entries are [varint id, varint value] on both sides; "
               "QPACK prefix-integer constants, representation patterns and the static table are shared by encoder and decoder."
               ' Also (C14-R7/R8/R9): async writers keep their cursor in the future and hand poll_write exactly the unwritten rest; driver-level datagram decode/encode use the quarter stream id and the consumed-bytes offset; cursor accessors mean what the guards assume (capacity = room left).')
NOT_DECIDED = ["the universally quantified value-level round-trip law itself", "octets' varint codec (external)"]
TRUSTED = ["rustc MIR", "octets put_varint/get_varint are inverse and use the shortest form for the length chosen by VarInt::size's thresholds"]


def run(ctx):
    A = ctx.A
    V = SPEC["varint"]
    ctx.rule("C14-R1", "varint size tables == RFC 9000 §16")
    shared.varint_size_table(ctx, "C14-R1")
    f = A.fn("wtransport_proto::varint::VarInt::parse_size")
    got = {}
    for p in nonpanic(walk(f)):
        eq = [a for a in p.atoms if a[0] == "eq"]
        v = const_val(p.leaf[1])
        if eq and isinstance(v, int):
            got[str(eq[-1][2])] = v
        ctx.check("C14-R1", "parse_size operand|%s" % path_sig(p)[1], all(canon(a[1]) == "Shr(first,6)" for a in p.atoms if a[0] in ("eq", "notin")), "parse_size does not switch on first >> 6", where(f))
    ctx.check("C14-R1", "VarInt::parse_size table", got == V["parse_size"], "VarInt::parse_size table %s, RFC 9000 §16: %s" % (got, V["parse_size"]), where(f))
    ctx.check("C14-R1", "VarInt::MAX", const_int(A, "wtransport_proto::varint::VarInt::MAX") == V["max"], "VarInt::MAX != 2^62-1")
    ctx.check("C14-R1", "VarInt::MAX_SIZE", const_int(A, "wtransport_proto::varint::VarInt::MAX_SIZE") == V["max_size"], "VarInt::MAX_SIZE != 8")
    f = A.fn("wtransport_proto::varint::VarInt::try_from_u64")
    sg = sorted(path_sig(p) for p in nonpanic(walk(f)))
    ctx.check("C14-R1", "try_from_u64 guard", sg == [(("value <= VarInt::MAX.0=%d" % V["max"],), "return Result::Ok(VarInt(value))"), (("value > VarInt::MAX.0=%d" % V["max"],), "return Result::Err(VarIntBoundsExceeded)")],
              "VarInt::try_from_u64 is not `value <= MAX`: %s" % sg, where(f))
    # writers use octets with the VarInt value unchanged
    f = A.fn("<wtransport_proto::bytes::BufferWriter as wtransport_proto::bytes::BytesWriter>::put_varint")
    ev = [e for p in nonpanic(walk(f)) for e in event_strs(p)]
    ctx.check("C14-R1", "BufferWriter::put_varint", any(re.match(r"^OctetsMut::put_varint\(self\.0,VarInt::into_inner\(varint\)\)$", e) for e in ev), "BufferWriter::put_varint does not call octets put_varint(varint.into_inner()): %s" % ev[:3], where(f))
    f = A.fn("<wtransport_proto::bytes::BufferReader as wtransport_proto::bytes::BytesReader>::get_varint")
    ev = [e for p in nonpanic(walk(f)) for e in event_strs(p)]
    ctx.check("C14-R1", "BufferReader::get_varint", any(re.match(r"^Octets::get_varint\(self\.0\)$", e) for e in ev), "BufferReader::get_varint does not call octets get_varint", where(f))

    ctx.rule("C14-R2", "parse/id pairs are mutual inverses over the registered constants")
    shared.registry_values(ctx, "C14-R2", which=("frames", "streams", "settings"))
    for ty, mod in (("FrameKind", "frame"), ("StreamKind", "stream_header"), ("SettingId", "settings")):
        f = A.fn("wtransport_proto::%s::%s::id" % (mod, ty))
        ex = [path_sig(p) for p in nonpanic(walk(f)) if any(a.endswith(" is Exercise") for a in path_sig(p)[0])]
        ctx.check("C14-R2", "%s::id(Exercise(v)) == v" % ty, len(ex) == 1 and re.match(r"^return \(self as Exercise\)\.0$", ex[0][1]) is not None, "%s::id does not return the GREASE id unchanged: %s" % (ty, ex), where(f))

    ctx.rule("C14-R3", "write == write_size terms == reader fields for Frame, StreamHeader, Datagram; write_async == write")
    shared.preamble_writers(ctx, "C14-R3")
    f = A.fn("wtransport_proto::frame::Frame::write_size")
    LEN = r"VarInt::size\(Result::expect\(<VarInt as TryFrom<u64>>::try_from\(\(<impl \[T\]>::len\(self\.payload\) as u64\)\),[^()]*\)\)"
    rows = [
        {"name": "WT: size(kind)+size(session)", "atoms": [r"^Frame::session_id\(self\) ok$"], "leaf": r"^return AddWithOverflow\(VarInt::size\(FrameKind::id\(self\.kind\)\),VarInt::size\(SessionId::into_varint\(ok\(Frame::session_id\(self\)\)\)\)\)\.0$"},
        {"name": "other: size(kind)+size(len)+len", "atoms": [r"^Frame::session_id\(self\) fails$"], "leaf": r"^return AddWithOverflow\(AddWithOverflow\(VarInt::size\(FrameKind::id\(self\.kind\)\),%s\)\.0,<impl \[T\]>::len\(self\.payload\)\)\.0$" % LEN},
    ]
    match_table(ctx, "C14-R3", f, walk(f), rows, "Frame::write_size")
    f = A.fn("wtransport_proto::stream_header::StreamHeader::write_size")
    rows = [
        {"name": "WT: size(kind)+size(session)", "atoms": [r"^StreamHeader::session_id\(self\) ok$"], "leaf": r"^return AddWithOverflow\(VarInt::size\(StreamKind::id\(self\.kind\)\),VarInt::size\(SessionId::into_varint\(ok\(StreamHeader::session_id\(self\)\)\)\)\)\.0$"},
        {"name": "other: size(kind)", "atoms": [r"^StreamHeader::session_id\(self\) fails$"], "leaf": r"^return VarInt::size\(StreamKind::id\(self\.kind\)\)$"},
    ]
    match_table(ctx, "C14-R3", f, walk(f), rows, "StreamHeader::write_size")
    shared.reader_sequences(ctx, "C14-R3")

    ctx.rule("C14-R7", "async writers emit each field exactly once: the slice handed to poll_write is the unwritten rest, progress is kept in the future across Pending")
    shared.poll_loops(ctx, "C14-R7")

    ctx.rule("C14-R8", "driver-level datagram decode / encode: payload offset = bytes the header parser consumed; header = varint(quarter id)")
    shared.driver_datagram_tables(ctx, "C14-R8")

    ctx.rule("C14-R9", "cursor accessors and the slice reader: capacity = room left, reads advance by the encoded length")
    shared.buffer_accessors(ctx, "C14-R9")
    shared.slice_reader_advance(ctx, "C14-R9")

    ctx.rule("C14-R4", "too-small destination untouched: the first put_* is dominated by capacity >= write_size()")
    for ty, mod in (("Frame", "frame"), ("StreamHeader", "stream_header")):
        f = A.fn("wtransport_proto::%s::%s::write_to_buffer" % (mod, ty))
        rows = [
            {"name": "too small->Err, no write", "atoms": [r"^BufferWriter::capacity\(buffer_writer\) < %s::write_size\(self\)$" % ty], "not_events": [r"::write\("], "leaf": r"^return Result::Err\(EndOfBuffer\)$"},
            {"name": "fits->write", "atoms": [r"^BufferWriter::capacity\(buffer_writer\) >= %s::write_size\(self\)$" % ty], "events": [r"^%s::write\(self,buffer_writer\)$" % ty], "leaf": r"^return Result::Ok\(\(\)\)$"},
        ]
        match_table(ctx, "C14-R4", f, walk(f), rows, "%s::write_to_buffer" % ty)
    f = A.fn("wtransport_proto::datagram::Datagram::write")
    ps = nonpanic(walk(f))
    bad = [path_sig(p) for p in ps if any("put_" in e for e in event_strs(p)) and not any(re.match(r"^<impl \[T\]>::len\(buffer\) >= Datagram::write_size\(self\)$", a) for a in path_sig(p)[0])]
    ctx.check("C14-R4", "Datagram::write guard", not bad and len(ps) == 2, "Datagram::write writes without the capacity guard: %s" % bad, where(f))

    ctx.rule("C14-R5", "SETTINGS entries: [varint id.id(), varint value] written, [varint, varint] read")
    for gen in ("generate_frame", "generate_frame_ref"):
        f = A.fn("wtransport_proto::settings::Settings::%s" % gen)
        with depth_limit(4):
            loops = [p for p in walk(f) if p.leaf[0] == "loop"]
            seq = [[("id" if "SettingId::id(" in e else "value") for e in event_strs(p) if re.search(r"BytesWriter(>)?::put_varint\(", e) and not e.startswith("Result::")] for p in loops]
        ctx.check("C14-R5", "Settings::%s" % gen, bool(seq) and all(s == ["id", "value"] for s in seq), "Settings::%s entry is not [id, value]: %s" % (gen, seq), where(f))
    f = A.fn("wtransport_proto::settings::Settings::with_frame")
    with depth_limit(4):
        loops = [p for p in walk(f) if p.leaf[0] == "loop"]
        seq = [[e.split("(")[0].split("::")[-1] for e in event_strs(p) if re.match(r"^<BufferReader as BytesReader>::get_(varint|bytes)\(", e)] for p in loops]
    ctx.check("C14-R5", "Settings::with_frame", bool(seq) and all(s == ["get_varint", "get_varint"] for s in seq), "Settings::with_frame entry is not [varint, varint]: %s" % seq, where(f))

    ctx.rule("C14-R6", "QPACK: shared static table, representation patterns, prefix-integer constants")
    shared.qpack_static_table(ctx, "C14-R6")
    shared.qpack_representations(ctx, "C14-R6")
    shared.prefix_integer_constants(ctx, "C14-R6")
