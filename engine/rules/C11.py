"""C11 — decoding untrusted bytes is total, bounded and invariant-preserving."""
import re
from rules import shared
from rules.shared import SPEC
from rulelib import walk, nonpanic, path_sig, event_strs, where, canon, call_sites, construction_sites, const_int
from mirlib import callee_name
from pathwalk import const_val, strip_refs
import intervals
import obligations

EXPLANATION = ("In the call-graph closure of every network-facing decoder entry point (local crates, resolved callees, trait impls, closures) "
               "every MIR Assert terminator (overflow, bounds, division), every panicking call (expect/unwrap/panic!/unreachable!/assert!), "
               "every slice range indexing and every shift is an obligation. Each must be discharged by constant evaluation (incl. every "
               "instantiation of const generics found at call sites), by interval bounds implied by the dominating guards of the path "
               "(loops are abstracted by one arbitrary iteration with all loop-assigned variables unknown), by a relational guard, or by a "
               "reviewed lemma keyed by (function, kind, operands) whose supporting structural facts are re-checked. Also: allocation "
               "sizes are dominated by the 4096 cap / by a successful bounded read; every decoder loop consumes input or leaves; "
               "unchecked constructors of VarInt / SessionId / QStreamId are called only with proven-in-range arguments."
               ' Also (C11-R6): the QPACK stream drains leave their loop on end of stream / read errors with the prescribed error (no spin without consuming input).')
NOT_DECIDED = ["external crates (octets, httlib-huffman, url, std) are summarised, not analysed", "32-bit targets (u64 as usize truncation; observation O3)",
               "value-level correctness of what is decoded (see C14/C15)"]
TRUSTED = ["rustc MIR with overflow checks (dev profile): every overflowing op carries an Assert", "octets::Octets::{get_varint,get_bytes,skip} contracts",
           "httlib_huffman::decode never panics", "reviewed lemma table in engine/rules/C11.py"]

ENTRY = [
    r"^wtransport_proto::frame::Frame::(read|read_from_buffer)$", r"^wtransport_proto::frame::Frame::read_async::\{closure#0\}$",
    r"^wtransport_proto::stream_header::StreamHeader::(read|read_from_buffer)$", r"^wtransport_proto::stream_header::StreamHeader::read_async::\{closure#0\}$",
    r"^wtransport_proto::stream::(biremote|bilocal|uniremote|session)::<impl .*>::(read_frame|read_frame_from_buffer)$",
    r"^wtransport_proto::stream::(biremote|bilocal|uniremote|session)::<impl .*>::read_frame_async::\{closure#0\}$",
    r"^wtransport_proto::stream::uniremote::<impl .*Quic>>::upgrade$", r"^wtransport_proto::stream::uniremote::<impl .*Quic>>::upgrade_async::\{closure#0\}$",
    r"^wtransport_proto::settings::Settings::with_frame$", r"^wtransport_proto::headers::Headers::with_frame$", r"^wtransport_proto::qpack::Decoder::decode$",
    r"^wtransport_proto::datagram::Datagram::read$", r"^wtransport::datagram::Datagram::read$", r"^wtransport_proto::capsule::Capsule::with_frame$",
    r"^wtransport_proto::capsule::close_wt_session::CloseWebTransportSession::with_capsule$",
    r"GetVarint<R> as std::future::Future>::poll$", r"GetBuffer<R> as std::future::Future>::poll$",
    r"^<&\[u8\] as wtransport_proto::bytes::BytesReader>::(get_varint|get_bytes)$", r"^<wtransport_proto::bytes::BufferReader as wtransport_proto::bytes::BytesReader>::(get_varint|get_bytes)$",
    r"^<wtransport_proto::session::Session(Request|Response) as std::convert::TryFrom<wtransport_proto::headers::Headers>>::try_from$",
    r"^<wtransport_proto::ids::StatusCode as std::str::FromStr>::from_str$", r"^wtransport_proto::ids::SessionId::try_from_varint$",
    r"^wtransport_proto::ids::QStreamId::(try_from_varint|into_session_id|into_stream_id)$",
    r"^wtransport_proto::session::SessionResponse::code$",
]

# ---- reviewed lemmas: (function regex, kind regex, operands regex, reason, support id)
LEMMAS = [
    # --- API preconditions, discharged at the call sites (support: every call site is dominated by the stated atom)
    (r"Headers::with_frame$", r"^panic$", r"matches!\(frame.kind\(\), FrameKind::Headers\)", "precondition: callers pass a HEADERS frame", "callers|Headers::with_frame|Headers"),
    (r"Settings::with_frame$", r"^panic$", r"matches!\(frame.kind\(\), FrameKind::Settings\)", "precondition: callers pass a SETTINGS frame", "callers|Settings::with_frame|Settings"),
    (r"Capsule::with_frame$", r"^panic$", r"matches!\(frame.kind\(\), FrameKind::Data\)", "precondition: callers pass a DATA frame", "callers|Capsule::with_frame|Data"),
    (r"CloseWebTransportSession::with_capsule$", r"^panic$", r"CapsuleKind::CloseWebTransportSession", "single-variant enum: the assertion is irrefutable", None),
    (r"uniremote::<impl .*H3>>::read_frame(_async::\{closure#0\})?$", r"^panic$", r"!matches!\(self.kind\(\), StreamKind::WebTransport\)",
     "precondition: only control/QPACK streams are read as frames (RemoteSettingsStream::set_stream asserts kind==Control; WT streams are upgraded in the accept task)", "uni-h3-reader"),
    (r"uniremote::<impl .*H3>>::kind$", r"^call:expect$", r"H3::stream_header", "typestate: UniRemote H3 stage is only built with Some(header) (upgrade / upgrade_async)", "uni-h3-has-header"),
    # --- varint primitives
    (r"<&\[u8\] as p::bytes::BytesReader>::get_varint$", r"^call:expect$", r"BufferReader as BytesReader>::get_varint",
     "the sub-slice has exactly parse_size(first) bytes (get(..size)? succeeded), octets parses a varint of that length", "parse-size-table"),
    (r"GetVarint<R> as std::future::Future>::poll$", r"^call:expect$", r"BufferReader as BytesReader>::get_varint",
     "buffer[..varint_size] holds a complete varint: varint_size = parse_size(buffer[0]) and offset == varint_size on loop exit", "parse-size-table"),
    (r"GetVarint<R> as std::future::Future>::poll$", r"^call:index(_mut)?$", r"self\.buffer,Range(To)?\(",
     "type invariant of GetVarint: offset <= varint_size <= 8 (varint_size is only assigned 0 or parse_size(..) in {1,2,4,8})", "getvarint-invariant"),
    (r"GetVarint<R> as std::future::Future>::poll$", r"^Overflow\(Add\)$", r"self\.offset|^1,", "offset + read <= varint_size <= 8 (AsyncRead contract: read <= buf.len())", "getvarint-invariant"),
    (r"GetBuffer<R> as std::future::Future>::poll$", r"^call:index_mut$", r"RangeFrom\(self\.offset\)", "loop guard offset < buffer.len()", None),
    (r"GetBuffer<R> as std::future::Future>::poll$", r"^Overflow\(Add\)$", r"self\.offset", "offset + read <= buffer.len() <= isize::MAX (AsyncRead contract: read <= buf.len())", None),
    (r"GetBuffer<R> as std::future::Future>::poll$", r"^Overflow\(Sub\)$", r"len\(self\.buffer\),self\.offset", "loop guard offset < buffer.len()", None),
    (r"(GetVarint|GetBuffer)<R> as std::future::Future>::poll$", r"^panic$", r"assertion failed|AssertKind", "debug-only statement of the AsyncRead contract (read <= buf.len(), first read in {0,1}) / of the state machine invariant", "debug-only"),
    (r"BufferReader as p::bytes::BytesReader>::get_varint$", r"^panic$", r"value <= VarInt::MAX", "debug-only: octets::get_varint masks the 2 length bits, result < 2^62", "debug-only"),
    (r"VarInt::from_u64_unchecked$", r"^panic$", r"value <= Self::MAX", "debug-only restatement of the unsafe precondition (call sites are obligations of rule C11-R4)", "debug-only"),
    (r"VarInt::parse_size$", r"^panic$", r"unreachable", "`first >> 6` of a u8 is in 0..=3: the `_` arm is dead", "u8-shr6"),
    (r"VarInt::size$", r"^panic$", r"unreachable", "type invariant VarInt.0 <= 2^62-1: the else arm is dead", "varint-invariant"),
    # --- ids
    (r"(FrameKind|StreamKind)::is_id_exercise$|SettingId::is_exercise$", r"^Overflow\(Sub\)$", r"into_inner\(id\),33", None, None),
    (r"QStreamId::into_stream_id$", r"^panic$", r"<< (2|[\w:]+) <= VarInt::MAX|## .*Shl\(VarInt::into_inner\(self\.0\),2\) > ", "debug-only: QStreamId invariant q <= 2^60-1 so q<<2 <= 2^62-4", "debug-only"),
    (r"QStreamId::into_session_id$|SessionId::from_session_stream_unchecked$", r"^panic$", r"is_bidirectional\(\) && stream_id.is_client_initiated\(\)", "debug-only: (q<<2)&3 == 0", "debug-only"),
    # --- frames / headers
    (r"Frame::new$", r"^panic$", r"payload.len\(\) <= VarInt::MAX", "payload.len() <= isize::MAX < 2^62 on 64-bit targets", None),
    (r"(Frame|StreamHeader)::new$", r"^panic$", r"is_id_exercise|is_empty|is_some|is_none", "debug-only constructor sanity checks: parse() yields Exercise only under is_id_exercise; session id present iff WebTransport", "debug-only"),
    (r"(Frame|StreamHeader)::session_id::\{closure#0\}$", r"^call:expect$", r"self\.session_id", "invariant: kind==WebTransport => session_id ok (all constructors: read paths and new_webtransport)", "wt-has-session-id"),
    (r"SessionResponse::code$", r"^call:expect$", r"':status'|Status code", "SessionResponse is only built by with_status_code(StatusCode): ':status' is present and is the decimal form of a valid StatusCode", "response-ctor"),
    # --- buffer reader
    (r"BufferReader::buffer_remaining$", r"^call:index$", r"RangeFrom\(BufferReader::offset", "octets invariant off <= len", None),
    (r"BufferReaderChild::commit$", r"^call:expect$", r"BufferReader::skip", "child reads a suffix of the parent: child.offset <= parent.capacity", None),
    (r"<&\[u8\] as p::bytes::r#async::AsyncRead>::poll_read$", r"^call:(index_mut|split_at)$", r"min\(", "amt = min(self.len(), buf.len())", None),
    (r"<&\[u8\] as p::bytes::r#async::AsyncRead>::poll_read$", r"^call:copy_from_slice$", r"", "both sides have length amt", None),
    # --- capsule
    (r"CloseWebTransportSession::with_capsule$", r"^call:expect$", r"^<T as TryInto<U>>::try_into\([^\[\]]*\[\.\.4\]\),",
     "the operand is `payload[..4]`: a slice produced by indexing with the constant range ..4 has length exactly 4 (the indexing itself is a separate obligation, discharged by the length guard)", None),
    # --- qpack
    (r"Decoder::decode$", r"^BoundsCheck$", r"buffer_remaining.*,0$", "loop guard capacity() > 0 and capacity == len(buffer_remaining())", None),
    (r"Decoder::decode_integer$", r"^BoundsCheck$", r"get_bytes\(.*,1\)\)\),0$", "get_bytes(1) returns a slice of exactly 1 byte (BytesReader contract, both impls)", "get-bytes-exact"),
    (r"Decoder::decode_integer$", r"^Overflow\(Sub\)$", r"^Shl\(1,N\),1$", "1 << N >= 2 for N >= 1", "const-generic-N"),
    (r"Decoder::decode_field_line_type$", r"^panic$", r"unreachable", "the five shifted-prefix tests cover all 256 byte values (checked exhaustively from the extracted table)", "field-line-table"),
    # --- driver datagram
    (r"w::datagram::Datagram::read$", r"^Overflow\(Sub\)$", r"Bytes::len\(quic_dgram\)", "suffix lemma (C03-R4)", None),
]


def closure_of(prog, entries):
    def callees(fn):
        out = set()
        body = fn.body
        if not body:
            return out
        for bb in body["blocks"]:
            t = bb["t"]
            if t["k"] == "call":
                n = callee_name(t["f"])
                d = t["f"].get("path")
                for nm in (n, d):
                    if nm in prog.fns:
                        out.add(nm)
                if d and d not in prog.fns and d.startswith("wtransport"):
                    m = re.match(r"^(.*)::(\w+)$", d)
                    if m:
                        tr, meth = m.groups()
                        for p in prog.fns:
                            if p.endswith(">::" + meth) and (" as " + tr) in p:
                                out.add(p)
            for st in bb["s"]:
                if st["k"] == "assign" and st["rv"]["k"] == "agg" and st["rv"].get("ak") in ("closure", "coroutine"):
                    if st["rv"]["did"] in prog.fns:
                        out.add(st["rv"]["did"])
        return out
    seen = {}
    work = [f.path for f in entries]
    while work:
        p = work.pop()
        if p in seen:
            continue
        fn = prog.fns[p][0]
        seen[p] = fn
        for c in callees(fn):
            if c not in seen:
                work.append(c)
    return seen


def typeb(e):
    """type facts: (lo, hi) of an expression from reviewed invariants of its producer"""
    if isinstance(e, tuple) and e[0] == "call":
        n = e[1]
        if n.endswith("VarInt::into_inner") or n.endswith("SessionId::into_u64") or n.endswith("StreamId::into_u64"):
            return 0, SPEC["varint"]["max"]
        if n.endswith("VarInt::size") or n.endswith("VarInt::parse_size"):
            return 1, 8
        if re.search(r"(\[T\]>|Vec<T, A>|Bytes|str)::len$", n):
            return 0, (1 << 63) - 1
        if n.endswith("Datagram::header_size"):
            return 1, 8
    if isinstance(e, tuple) and e[0] == "cast" and e[3] in ("usize", "u64") and isinstance(e[2], tuple):
        return typeb(e[2])
    return None, None


class Support:
    """machine-checked supporting facts of the lemmas (each evaluated once)"""

    def __init__(self, ctx):
        self.ctx = ctx
        self.A = ctx.A
        self.cache = {}

    def check(self, sid):
        if sid is None:
            return True, "reviewed"
        if sid not in self.cache:
            fn = getattr(self, "s_" + re.sub(r"\W", "_", sid.split("|")[0]))
            self.cache[sid] = fn(sid)
        return self.cache[sid]

    def s_debug_only(self, sid):
        return True, "debug_assert!: not present in release builds; states a contract that is itself an assumption"

    def s_callers(self, sid):
        _, callee, kind = sid.split("|")
        n = 0
        bad = []
        for fn, p, ev, atoms in call_sites(self.A, r"(^|::)%s$" % re.escape(callee)):
            if p is None:
                bad.append(fn.path + " (too many paths)")
                continue
            n += 1
            arg = strip_refs(ev[2][0])
            okk = any(a[0] == "is" and a[2] == kind and isinstance(a[1], tuple) and a[1][0] == "call" and a[1][1].endswith("Frame::kind") and strip_refs(a[1][2][0]) == arg for a in atoms)
            if not okk:
                bad.append(fn.path)
        return (n > 0 and not bad), "%d call site(s) all dominated by `frame.kind() is %s`%s" % (n, kind, (" EXCEPT " + ", ".join(sorted(set(bad)))) if bad else "")

    def s_parse_size_table(self, sid):
        f = self.A.fn("wtransport_proto::varint::VarInt::parse_size")
        got = {}
        for p in nonpanic(walk(f)):
            eq = [a for a in p.atoms if a[0] == "eq"]
            v = const_val(p.leaf[1]) if p.leaf[0] == "return" else None
            if eq and isinstance(v, int):
                got[str(eq[-1][2])] = v
        return got == SPEC["varint"]["parse_size"], "VarInt::parse_size table %s == RFC 9000 §16" % got

    def s_u8_shr6(self, sid):
        f = self.A.fn("wtransport_proto::varint::VarInt::parse_size")
        ps = walk(f)
        sw = [a for p in ps for a in p.atoms if a[0] in ("eq", "notin")]
        okk = all(canon(a[1]) == "Shr(first,6)" for a in sw) and f.body["locals"][1]["ty"] == "u8"
        return okk, "the switch operand is `first >> 6` with first: u8"

    def s_varint_invariant(self, sid):
        return varint_invariant(self.ctx, None)

    def s_getvarint_invariant(self, sid):
        f = self.A.fn("<wtransport_proto::bytes::r#async::GetVarint<R> as std::future::Future>::poll")
        stores = set()
        for p in walk(f):
            for e in p.events:
                if e[0] == "store" and canon(e[1]).endswith("self.varint_size"):
                    stores.add(canon(e[2]))
        okk = stores == {"VarInt::parse_size(self.buffer[0])"}
        g = self.A.fn("wtransport_proto::bytes::r#async::GetVarint::new")
        init = [path_sig(p)[1] for p in nonpanic(walk(g))]
        ok2 = init == ["return GetVarint(reader,[0;8],0,0)"]
        return okk and ok2, "varint_size is assigned only parse_size(buffer[0]) (%s) and initialised 0 with an 8-byte buffer (%s)" % (sorted(stores), init)

    def s_uni_h3_has_header(self, sid):
        n = 0
        bad = []
        for fn, p, ops, atoms in construction_sites(self.A, "wtransport_proto::stream::Stream"):
            pass
        for fn, p, ev, atoms in call_sites(self.A, r"stream::types::H3::new$"):
            if p is None:
                continue
            if "uniremote" in fn.path or "unilocal" in fn.path:
                n += 1
                if not canon(ev[2][0]).startswith("Option::Some("):
                    bad.append(fn.path)
            elif canon(ev[2][0]) != "Option::None":
                bad.append(fn.path)
        return n >= 2 and not bad, "H3::new(Some(header)) at all %d uni construction sites%s" % (n, (" EXCEPT " + str(bad)) if bad else "")

    def s_uni_h3_reader(self, sid):
        # RemoteSettingsStream / QPACK holders assert the kind at set_stream; handle_uni routes WebTransport elsewhere (C08-R4 rows)
        okk = True
        for holder, kind in (("settings::RemoteSettingsStream", "Control"), ("qpack::RemoteQPackEncStream", "QPackEncoder"), ("qpack::RemoteQPackDecStream", "QPackDecoder")):
            f = self.A.fn("wtransport::driver::streams::%s::set_stream" % holder)
            ps = walk(f)
            stores = [p for p in ps if p.leaf[0] == "return"]
            okk = okk and bool(stores) and all(any(a[0] == "is" and a[2] == kind for a in p.atoms) for p in stores)
        return okk, "the three holders of UniRemote H3 streams store a stream only under `kind() is Control/QPackEncoder/QPackDecoder`"

    def s_wt_has_session_id(self, sid):
        bad = []
        n = 0
        for adt, newfn in (("wtransport_proto::frame::Frame", "Frame::new"), ("wtransport_proto::stream_header::StreamHeader", "StreamHeader::new")):
            for fn, p, ops, atoms in construction_sites(self.A, adt):
                if p is None or "::tests::" in fn.path:
                    continue
                n += 1
                if not fn.path.endswith("::new"):
                    bad.append(fn.path)
            for fn, p, ev, atoms in call_sites(self.A, r"(^|::)%s$" % newfn):
                if p is None:
                    continue
                k = canon(ev[2][0])
                sid_arg = canon(ev[2][-1])
                if "WebTransport" in k and not sid_arg.startswith("Option::Some("):
                    bad.append(fn.path)
                if k.startswith("ok(") or k.startswith("ok("):
                    # kind parsed from the wire: session id is Some exactly on the WebTransport branch
                    wt = any(a[0] == "is" and a[2] == "WebTransport" for a in atoms)
                    if wt != sid_arg.startswith("Option::Some("):
                        bad.append(fn.path + " (parsed kind)")
        return n > 0 and not bad, "Frame / StreamHeader are only built by `new`, which receives Some(session_id) exactly for the WebTransport kind%s" % ((" EXCEPT " + str(sorted(set(bad)))) if bad else "")

    def s_response_ctor(self, sid):
        sites = set()
        for fn, p, ops, atoms in construction_sites(self.A, "wtransport_proto::session::SessionResponse"):
            if "::tests::" not in fn.path:
                sites.add(fn.path)
        okk = sites == {"wtransport_proto::session::SessionResponse::with_status_code"}
        return okk, "SessionResponse constructed only in %s" % sorted(sites)

    def s_get_bytes_exact(self, sid):
        f = self.A.fn("<&[u8] as wtransport_proto::bytes::BytesReader>::get_bytes")
        ls = sorted(path_sig(p)[1] for p in nonpanic(walk(f)))
        ok1 = "return Option::Some(self[..len])" in ls   # normal form of `self.get(..len)?`, `&self[..len]` after a length guard, `split_at(len).0`
        return ok1, "<&[u8]>::get_bytes(len) returns self.get(..len): exactly len bytes (octets::get_bytes(len) likewise by contract)"

    def s_const_generic_N(self, sid):
        ns = const_instantiations(self.A, r"Decoder::decode_integer$|Decoder::decode_string$|Encoder::encode_integer$|Encoder::encode_string$")
        okk = bool(ns) and all(1 <= n <= 8 for n in ns)
        return okk, "instantiations of N at all call sites: %s (all in 1..=8; `const_assert!(N <= 8 && N >= 1)` enforces it at compile time)" % sorted(ns)

    def s_field_line_table(self, sid):
        return field_line_table(self.ctx, None)


def const_instantiations(prog, callee_rx):
    ns = set()
    rx = re.compile(callee_rx)
    for fn in prog.fn_list:
        body = fn.body
        if not body or "::tests::" in fn.path:
            continue
        for bb in body["blocks"]:
            t = bb["t"]
            if t["k"] == "call" and rx.search(callee_name(t["f"])):
                for c in t["f"].get("cargs", []):
                    if isinstance(c, int):
                        ns.add(c)
    return ns


def field_line_table(ctx, rid):
    """decode_field_line_type: evaluate the extracted decision table on all 256 byte values (finite domain)"""
    f = ctx.A.fn("wtransport_proto::qpack::Decoder::decode_field_line_type")
    paths = walk(f)
    table = {}
    dead_unreachable = True
    for b in range(256):
        hit = []
        for p in paths:
            okp = True
            for a in p.atoms:
                if a[0] != "cmp" or canon(a[2]).split("(")[0] != "Shr" or canon(a[2]) not in ("Shr(byte,7)", "Shr(byte,4)", "Shr(byte,6)", "Shr(byte,5)"):
                    okp = None
                    break
                sh = int(canon(a[2])[-2])
                c = intervals.cval(a[3])
                v = b >> sh
                r = {"Eq": v == c, "Ne": v != c}.get(a[1])
                if r is None:
                    okp = None
                    break
                okp = okp and r
            if okp is None:
                return False, "decode_field_line_type is no longer a chain of `byte >> k == c` tests"
            if okp:
                hit.append(p)
        if len(hit) != 1:
            return False, "byte %d matches %d rows" % (b, len(hit))
        leaf = hit[0].leaf
        if leaf[0] == "panic":
            dead_unreachable = False
            table[b] = "panic"
        else:
            table[b] = canon(leaf[1]).split("::")[-1]
    want = {}
    for b in range(256):
        if b >> 7 == 1:
            want[b] = "Indexed"
        elif b >> 6 == 1:
            want[b] = "LiteralRefName"
        elif b >> 5 == 1:
            want[b] = "LiteralLitName"
        elif b >> 4 == 1:
            want[b] = "IndexedPost"
        else:
            want[b] = "LiteralPostRefName"
    okk = dead_unreachable and table == want
    diff = [(b, table[b], want[b]) for b in range(256) if table[b] != want[b]][:4]
    return okk, "all 256 first bytes classified as in RFC 9204 §4.5.2-4.5.6, unreachable!() arm dead%s" % ((" — MISMATCH " + str(diff)) if diff else "")


def varint_invariant(ctx, rid):
    """every construction of VarInt: constant <= MAX, or guarded by `value <= MAX`, or the unsafe unchecked constructor"""
    A = ctx.A
    MAXV = SPEC["varint"]["max"]
    bad = []
    n = 0
    for fn, p, ops, atoms in construction_sites(A, "wtransport_proto::varint::VarInt"):
        if p is None or "::tests::" in fn.path:
            continue
        n += 1
        x = ops[0]
        v = intervals.cval(x)
        if v is not None:
            if v > MAXV:
                bad.append("%s: constant %d" % (fn.path, v))
            continue
        if fn.path.endswith("VarInt::from_u64_unchecked"):
            continue  # unsafe contract; call sites checked separately
        if fn.path.endswith("VarInt::from_u32"):
            continue  # u32 as u64 < 2^32
        lo, hi = intervals.bounds(atoms, x)
        if hi is None or hi > MAXV:
            bad.append("%s: VarInt(%s) bounded to [%s,%s]" % (fn.path, canon(x), lo, hi))
    return (n >= 3 and not bad), "VarInt is constructed at %d sites, each constant/guarded <= 2^62-1 or the unsafe constructor%s" % (n, (" EXCEPT " + "; ".join(bad)) if bad else "")


def sweep(ctx, rid, A, clo, sup, only=None):
    """discharge every obligation of the functions in `clo` (optionally restricted to the def paths in `only`)"""
    n_ob = n_gen = n_lem = 0
    used = set()
    import pathwalk
    voc = pathwalk.vocab()
    direct = set()
    for p2, f2 in clo.items():
        if f2.body:
            for bb in f2.body["blocks"]:
                t = bb["t"]
                if t["k"] == "call":
                    direct.add(t["f"].get("resolved") or t["f"].get("path"))
    for path, fn in sorted(clo.items()):
        if "::tests::" in path or fn.body is None or (only is not None and path not in only):
            continue
        if voc and path not in voc and not fn.is_coroutine and path in direct and "{closure#" not in path:
            # a helper that is not part of the reference vocabulary is inlined into its callers by the walker: its obligations are
            # collected (and keyed) there, with the callers' guards in scope
            ctx.count("helpers_analysed_through_their_callers")
            continue
        obs = obligations.collect(fn)
        for o in obs:
            n_ob += 1
            alen = None
            how = obligations.discharge(o, typeb=typeb)
            if how is None and (o.kind.startswith("call:index") or o.kind.startswith("call:split_at")):
                # array length from the resolved Index impl's const generic
                alen = None
                for p in []:
                    pass
                how = obligations.discharge_index(o, array_len=_array_len(fn, o), typeb=typeb)
            if how is None and o.kind in ("call:expect", "call:unwrap") and obligations.known_some(o.atoms, o.ops[0]):
                how = "guard: the value ok/Ok on every path reaching the call"
            if how is None and o.kind.startswith("Overflow(Sh") and isinstance(o.ops[1], tuple) and o.ops[1][0] == "cparam":
                ns = const_instantiations(A, re.escape(fn.path.split("::")[-1]) + "$")
                ns |= const_instantiations(A, r"Decoder::decode_string$") if "decode_integer" in fn.path else set()
                if ns and all(n < 64 for n in ns):
                    how = "const generic %s instantiated with %s, all < 64" % (o.ops[1][1], sorted(ns))
            if how is not None:
                n_gen += 1
                ctx.ok(rid, o.key, how)
                continue
            # lemma table
            fkey = o.key.split("|")[0]
            opstr = ",".join(canon(x) for x in o.ops)
            hay2 = opstr + " ## " + " & ".join(obligations.atom_str(a) for a in o.atoms)   # (message / operands, then the guards of the path)
            hit = None
            for i, (frx, krx, orx, why, sid) in enumerate(LEMMAS):
                if re.search(frx, fkey) and re.search(krx, o.kind) and (re.search(orx, opstr) or ("## " in orx and re.search(orx, hay2))):
                    hit = (i, why, sid)
                    break
            if hit and hit[1] is not None:
                okk, detail = sup.check(hit[2])
                used.add(hit[0])
                if okk:
                    n_lem += 1
                    ctx.ok(rid, o.key, "lemma: %s [%s]" % (hit[1], detail))
                    ctx.sample({"rule": rid, "obligation": o.text()[:160], "fn": fkey, "at": o.loc, "discharged_by": "lemma: " + hit[1], "support": detail})
                    continue
                ctx.violation(rid, o.key + "|lemma-support-failed", "%s: `%s`: the lemma '%s' no longer holds: %s" % (fn.path, o.text(), hit[1], detail), o.loc)
                continue
            ctx.violation(rid, o.key,
                          "%s: `%s` is reachable from a network-facing decoder and is not discharged (guards on the path: %s)"
                          % (fn.path, o.text(), " & ".join(obligations.atom_str(a) for a in o.atoms)[:300] or "none"), o.loc)
    return n_ob, n_gen, n_lem


def run(ctx):
    A = ctx.A
    sup = Support(ctx)
    ctx.rule("C11-R1", "every panic / overflow / bounds obligation reachable from a decoder entry point is discharged")
    entries = []
    for rx in ENTRY:
        fs = A.find(rx)
        if not fs:
            ctx.violation("C11-R1", "entry|%s" % rx, "cannot decide: decoder entry point not found: /%s/" % rx)
        entries += fs
    ctx.floor("C11-R1", "entry points", len(entries), 40)
    clo = closure_of(A, entries)
    ctx.count("entry_points", len(entries))
    ctx.count("functions_in_closure", len(clo))
    n_ob, n_gen, n_lem = sweep(ctx, "C11-R1", A, clo, sup)
    ctx.count("obligations", n_ob)
    ctx.count("discharged_by_constants_intervals_guards", n_gen)
    ctx.count("discharged_by_lemma", n_lem)
    ctx.floor("C11-R1", "obligations", n_ob, 50)

    ctx.rule("C11-R6", "the QPACK stream drains never spin: end of stream / read errors leave the loop with the prescribed error")
    shared.qpack_runner_tables(ctx, "C11-R6")

    ctx.rule("C11-R2", "allocation bound: sizes derived from the wire are capped (4096) or bounded by a completed read before allocating")
    f = A.fn("wtransport_proto::frame::Frame::read_async::{closure#0}")
    cap = const_int(A, "wtransport_proto::frame::Frame::MAX_PARSE_PAYLOAD_ALLOWED")
    ctx.check("C11-R2", "MAX_PARSE_PAYLOAD_ALLOWED", cap == SPEC["max_parse_payload"], "payload cap is %d, expected %d" % (cap, SPEC["max_parse_payload"]))
    na = 0
    for fn, p, ev, atoms in call_sites(A, r"(vec::from_elem|Vec<T>::with_capacity|Vec<T, A>::with_capacity|Vec::with_capacity)$"):
        if p is None or fn.path not in clo:
            continue
        na += 1
        sz = ev[2][-1] if "from_elem" in ev[1] else ev[2][0]
        lo, hi = obligations.bounds_of(atoms, sz)
        how = None
        if hi is not None and hi <= cap:
            how = "dominated by size <= %d" % hi
        elif any(a[0] in ("is", "try") and isinstance(a[1], tuple) and a[1][0] == "call" and a[1][1].endswith("get_bytes") and intervals.core(a[1][2][-1]) == intervals.core(sz) and (a[2] is True or a[2] == "Some") for a in atoms):
            how = "dominated by a successful get_bytes(size): size <= remaining input"
        ctx.check("C11-R2", "alloc@%s|%s" % (fn.path.replace("wtransport_proto::", ""), canon(sz)[:80]), how is not None,
                  "%s allocates %s bytes from a wire-derived length without a dominating cap (bounds [%s,%s])" % (fn.path, canon(sz), lo, hi), ev[4], detail=how)
    ctx.floor("C11-R2", "wire-sized allocations", na, 2)
    # the sync reader applies the same cap before get_bytes
    f = A.fn("wtransport_proto::frame::Frame::read")
    ps = nonpanic(walk(f))
    gb = [p for p in ps for e in p.events if e[0] == "call" and e[1].endswith("BytesReader::get_bytes")]
    ctx.check("C11-R2", "Frame::read cap before get_bytes", bool(gb) and all(any(a[0] == "cmp" and a[1] == "Le" and intervals.cval(a[3]) == cap for a in p.atoms) for p in gb),
              "Frame::read reads the payload without the `payload_len <= 4096` guard", where(f))

    ctx.rule("C11-R3", "progress: every loop of a decoder consumes input on each iteration or leaves the loop")
    nl = 0
    for path, fn in sorted(clo.items()):
        if fn.body is None or "::tests::" in path:
            continue
        loops = {h: b for h, b in fn.cfg.loops.items()}
        if not loops:
            continue
        paths = walk(fn)
        for p in paths:
            if p.leaf[0] != "loop":
                continue
            h = p.leaf[1]
            if h not in loops:
                continue
            # events after the last visit of the header on this path
            # (by event order, so that what an inlined helper does inside the loop body is counted)
            marks = [i for i, e in enumerate(p.events) if e[0] == "loophead" and e[1] == h and e[2] == fn.path]
            evs = [e for e in p.events[(marks[-1] if marks else 0):] if e[0] in ("call", "await")]
            consuming = [e for e in evs if (e[0] == "call" and re.search(r"(get_varint|get_bytes|get_buffer|poll_read|poll_write|Frame::read|Frame::read_async|read_frame|BufferReader::skip|read_exact|Iterator>::next|recv|Decoder::decode_integer|Decoder::decode_string)$", e[1])) or e[0] == "await"]
            nl += 1
            ctx.check("C11-R3", "loop@%s|bb%d" % (path.replace("wtransport_proto::", "p::"), 0), bool(consuming),
                      "%s: a loop iteration reaches its back edge without consuming input (possible spin): %s" % (path, path_sig(p)[0][-2:]), where(fn),
                      key="loop@%s|%s" % (path.replace("wtransport_proto::", "p::"), ";".join(path_sig(p)[0][-2:])[:160]))
    ctx.floor("C11-R3", "loop back-edge paths", nl, 12)

    ctx.rule("C11-R4", "invariants of returned values: unchecked constructors are called only with proven-in-range arguments")
    okv, dv = varint_invariant(ctx, None)
    ctx.check("C11-R4", "VarInt construction sites", okv, "VarInt invariant (< 2^62) not established at every construction: %s" % dv, detail=dv)
    nu = 0
    for fn, p, ev, atoms in call_sites(A, r"VarInt::from_u64_unchecked$"):
        if p is None or "::tests::" in fn.path:
            continue
        nu += 1
        x = ev[2][0]
        cx = intervals.core(x)
        how = None
        v = intervals.cval(x)
        lo, hi = obligations.bounds_of(atoms, x, typeb)
        if v is not None and v <= SPEC["varint"]["max"]:
            how = "constant"
        elif hi is not None and hi <= SPEC["varint"]["max"]:
            how = "interval hi=%d" % hi
        elif isinstance(cx, tuple) and cx[0] == "bin" and cx[1] == "Shr" and intervals.cval(cx[3]) == 2:
            how = "x >> 2 of a 64-bit value < 2^62"
        elif isinstance(cx, tuple) and cx[0] == "bin" and cx[1] == "Shl" and intervals.cval(cx[3]) == 2 and "QStreamId" in fn.path:
            how = "QStreamId invariant q <= 2^60-1 (try_from_varint guard / MAX constant) so q << 2 <= 2^62-4"
        elif isinstance(cx, tuple) and cx[0] == "call" and re.search(r"quinn(_proto)?::(varint::)?VarInt::into_inner$", cx[1]):
            how = "quinn::VarInt invariant (< 2^62), quinn::VarInt::MAX == VarInt::MAX"
        elif isinstance(cx, tuple) and cx[0] in ("ok", "f", "dc") and "Octets::get_varint" in canon(cx):
            how = "octets::get_varint masks the two length bits: value < 2^62"
        ctx.check("C11-R4", "from_u64_unchecked@%s|%s" % (fn.path.replace("wtransport_proto::", "p::").replace("wtransport::", "w::"), canon(x)[:80]), how is not None,
                  "%s calls the unsafe VarInt::from_u64_unchecked(%s) without a proof that the argument is < 2^62 (bounds [%s,%s])" % (fn.path, canon(x), lo, hi), ev[4], detail=how)
    ctx.floor("C11-R4", "from_u64_unchecked call sites", nu, 4)
    ns = 0
    for fn, p, ev, atoms in call_sites(A, r"SessionId::from_session_stream_unchecked$"):
        if p is None or "::tests::" in fn.path:
            continue
        ns += 1
        okk = canon(ev[2][0]) == "QStreamId::into_stream_id(self)"
        ctx.check("C11-R4", "from_session_stream_unchecked@%s" % fn.path.replace("wtransport_proto::", "p::"), okk,
                  "%s calls the unsafe SessionId::from_session_stream_unchecked on %s, which is not a quarter-id<<2 (low two bits not provably 0)" % (fn.path, canon(ev[2][0])), ev[4])
    ctx.floor("C11-R4", "from_session_stream_unchecked call sites", ns, 1)
    shared.qstream_algebra(ctx, "C11-R4")
    # SessionId construction: only under is_bidirectional && is_client_initiated, or the unsafe constructor
    for fn, p, ops, atoms in construction_sites(A, "wtransport_proto::ids::SessionId"):
        if p is None or "::tests::" in fn.path or "maybe_invalid" in fn.path:
            continue
        if fn.path.endswith("from_session_stream_unchecked"):
            continue
        g = [obligations.atom_str(a) for a in atoms]
        okk = "StreamId::is_bidirectional(stream_id)" in g and "StreamId::is_client_initiated(stream_id)" in g
        ctx.check("C11-R4", "SessionId construct@%s" % fn.path.replace("wtransport_proto::", "p::"), okk,
                  "%s constructs a SessionId without both guards is_bidirectional && is_client_initiated: %s" % (fn.path, g), where(fn))

    ctx.rule("C11-R5", "a numeric field too large to represent is an error: checked_add result is ?-propagated as IntegerOverflow")
    f = A.fn("wtransport_proto::qpack::Decoder::decode_integer")
    ps = walk(f)
    ovf = [p for p in ps if "IntegerOverflow" in path_sig(p)[1]]
    ctx.check("C11-R5", "decode_integer overflow -> IntegerOverflow", bool(ovf) and any(any(re.search(r"checked_add\(.*\) fails$", a) for a in path_sig(p)[0]) for p in ovf),
              "decode_integer no longer maps checked_add overflow to DecodingError::IntegerOverflow", where(f))
    ctx.assume("O3: `payload_len as usize` truncates on 32-bit targets before the 4096 cap is applied; the analysis targets x86_64")


def _array_len(fn, o):
    """array length for `<impl Index<I> for [T; N]>` obligations: from the indexed field's type"""
    s = canon(o.ops[0])
    if s.endswith("self.buffer") and "GetVarint" in fn.path or "PutVarint" in fn.path:
        return 8
    return None
