"""C16 — everything the endpoint emits is well-formed HTTP/3 and WebTransport."""
import re
from rules import shared
from rules.shared import SPEC
from rulelib import walk, match_table, nonpanic, path_sig, event_strs, where, depth_limit, canon
from pathwalk import const_val

EXPLANATION = ("Absolute wire values against tables transcribed from the specifications (the round-trip unit tests cannot see them): frame / "
               "stream-type / setting / capsule / error-code registries and ALPN; the advertised local SETTINGS set and each builder method's "
               "(id, value); exactly one control stream opened first: open uni -> upgrade(StreamHeader::new_control()) -> send_settings before the "
               "worker loop; QPACK field sections: prefix 00 00, only static-indexed / static-name-reference / literal representations, "
               "pseudo-headers sorted first, request pseudo-header literals, static table rows; stream preamble and datagram prefix writers."
               ' Also (C16-R7/R8/R9): frame payloads are written exactly once under partial writes; every datagram is prefixed by varint(quarter stream id); the QUIC close emitted at termination carries a registered H3 code. C16-R10: Frame::new_headers / new_settings / new_data / new_exercise build the kind they name with the payload given, Frame::new stores (kind, payload, session id) unchanged, Settings::builder / build hand on exactly the map the setters filled.')
NOT_DECIDED = ["bytes produced by quinn / rustls", "Huffman coder output (external crate)"]
TRUSTED = ["rustc const evaluation and MIR", "spec/h3.json, spec/qpack_static.json transcriptions"]


def run(ctx):
    A = ctx.A
    ctx.rule("C16-R1", "registry constants == registered values (frames, stream types, settings, capsule, error codes, ALPN)")
    shared.registry_values(ctx, "C16-R1")

    ctx.rule("C16-R2", "local SETTINGS content and builder methods")
    want_ids = {"qpack_max_table_capacity": "QPackMaxTableCapacity", "qpack_blocked_streams": "QPackBlockedStreams", "enable_connect_protocol": "EnableConnectProtocol",
                "enable_webtransport": "EnableWebTransport", "enable_h3_datagrams": "H3Datagram", "webtransport_max_sessions": "WebTransportMaxSessions"}
    fixed = {"enable_connect_protocol": 1, "enable_webtransport": 1, "enable_h3_datagrams": 1}
    for m, sid in want_ids.items():
        f = A.fn("wtransport_proto::settings::SettingsBuilder::%s" % m)
        ev = [e for p in nonpanic(walk(f)) for e in event_strs(p) if e.startswith("HashMap::insert(")]
        val = "VarInt::from_u32(%d)" % fixed[m] if m in fixed else "value"
        ctx.check("C16-R2", "SettingsBuilder::%s" % m, ev in (["HashMap::insert(self.0.0,SettingId::%s,%s)" % (sid, val)], ["HashMap::insert(self.0.0,SettingId::%s,%s)" % (sid, fixed.get(m, "value"))]), "SettingsBuilder::%s inserts %s, expected (SettingId::%s, %s)" % (m, ev, sid, val), where(f))
    f = A.fn("wtransport::driver::streams::settings::LocalSettingsStream::empty")
    calls = []
    for p in nonpanic(walk(f))[:1]:
        for e in p.events:
            if e[0] == "call" and "SettingsBuilder::" in e[1] and not e[1].endswith("::build"):
                v = None
                if len(e[2]) > 1:
                    a = e[2][1]
                    if isinstance(a, tuple) and a[0] == "call" and a[1].endswith("VarInt::from_u32"):
                        v = const_val(a[2][0])
                calls.append((e[1].split("::")[-1], v))
    got = {}
    for m, v in calls:
        got[want_ids.get(m, m)] = fixed.get(m, v)
    ctx.check("C16-R2", "advertised settings", got == SPEC["local_settings"], "LocalSettingsStream advertises %s, expected %s" % (got, SPEC["local_settings"]), where(f))
    ctx.sample({"rule": "C16-R2", "advertised": got})
    for gen in ("generate_frame", "generate_frame_ref"):
        f = A.fn("wtransport_proto::settings::Settings::%s" % gen)
        with depth_limit(4):
            ps = walk(f)
            loops = [p for p in ps if p.leaf[0] == "loop"]
            seq = [[e.split("(")[0].split("::")[-1] + ":" + ("id" if "SettingId::id(" in e else "value") for e in event_strs(p) if re.search(r"BytesWriter(>)?::put_varint\(", e) and not e.startswith("Result::")] for p in loops]
        ctx.check("C16-R2", "Settings::%s entry = [varint id, varint value]" % gen, bool(seq) and all(s == ["put_varint:id", "put_varint:value"] for s in seq), "Settings::%s does not emit [varint id.id(), varint value] per entry: %s" % (gen, seq), where(f))
    f = A.find1(r"^wtransport::driver::streams::settings::LocalSettingsStream::send_settings::\{closure#0\}$")
    with depth_limit(6):
        ev = [e for p in nonpanic(walk(f)) for e in event_strs(p)]
    ctx.check("C16-R2", "send_settings writes settings.generate_frame()", any(re.search(r"::write_frame\(.*Settings::generate_frame\(self\.settings\)\)$", e) for e in ev), "send_settings does not write self.settings.generate_frame()", where(f))

    ctx.rule("C16-R3", "exactly one control stream, opened before the loop: open_uni -> upgrade(new_control) -> send_settings")
    f = A.find1(r"^wtransport::driver::worker::Worker::open_and_send_settings::\{closure#0\}$")
    with depth_limit(4):
        okp = [p for p in walk(f) if p.leaf[0] == "return" and "send_settings" in path_sig(p)[1]]
        seqs = []
        for p in okp:
            ev = event_strs(p)
            idx = lambda rx: next((i for i, e in enumerate(ev) if re.search(rx, e)), None)
            seqs.append((idx(r"^<impl .*UniLocal, Quic>>>::open_uni\("), idx(r"^StreamHeader::new_control\(\)$"), idx(r"^<impl .*UniLocal, Quic>>>::upgrade\(.*StreamHeader::new_control\(\)\)$"),
                         idx(r"^LocalSettingsStream::set_stream\("), idx(r"^LocalSettingsStream::send_settings\(")))
    ctx.check("C16-R3", "control stream order", bool(seqs) and all(None not in s and list(s) == sorted(s) and s[0] < s[2] < s[3] < s[4] for s in seqs), "open_and_send_settings order is not open_uni -> upgrade(new_control) -> set_stream -> send_settings: %s" % seqs, where(f))
    pan = [path_sig(p) for p in walk(f) if p.leaf[0] == "panic"]
    ctx.check("C16-R3", "guarded by is_empty (exactly one)", any(any("LocalSettingsStream::is_empty" in a for a in at) for at, _ in pan), "open_and_send_settings lacks assert!(local_settings_stream.is_empty())", where(f))
    w = A.fn("wtransport::driver::worker::Worker::run_impl::{closure#0}")
    cfg = w.cfg
    calls = [(bi, bb["t"]["f"].get("path")) for bi, bb in enumerate(w.body["blocks"]) if bb["t"]["k"] == "call" and (bb["t"]["f"].get("path") or "").endswith("Worker::open_and_send_settings")]
    ctx.check("C16-R3", "settings sent once, before the loop", len(calls) == 1 and not cfg.in_cycle(calls[0][0]), "open_and_send_settings is not called exactly once outside the worker loop: %s" % calls, where(w))
    f = A.fn("wtransport_proto::stream_header::StreamHeader::new_control")
    sg = [path_sig(p)[1] for p in nonpanic(walk(f))]
    ctx.check("C16-R3", "new_control", sg == ["return StreamHeader::new(StreamKind::Control,Option::None)"], "StreamHeader::new_control changed: %s" % sg, where(f))

    ctx.rule("C16-R4", "field sections: prefix 00 00; static-indexed / static-name-ref / literal only; pseudo-headers first; request pseudo-header literals")
    shared.qpack_representations(ctx, "C16-R4")
    # the key closure is found through the sort call that receives it (not by its index among the function's closures)
    g = A.fn("wtransport_proto::headers::Headers::sorted_headers")
    keys = set()
    for p in nonpanic(walk(g)):
        for e in p.events:
            if e[0] == "call" and re.search(r"<impl \[T\]>::sort(_unstable)?_by_key$|<impl \[T\]>::sort_by_cached_key$", e[1]):
                k = e[2][1]
                while isinstance(k, tuple) and k and k[0] in ("ref", "deref"):
                    k = k[1]
                if isinstance(k, tuple) and k[0] == "agg" and k[1] == "closure":
                    keys.add(k[2])
    ctx.check("C16-R4", "sorted_headers sorts by a key", len(keys) == 1, "Headers::sorted_headers does not sort its fields with exactly one sort_by_key: %s" % sorted(keys), where(g))
    for kp in sorted(keys):
        f = A.fn(kp)
        sg = [path_sig(p)[1] for p in nonpanic(walk(f))]
        ctx.check("C16-R4", "sort key (!starts_with(':'), name)", len(sg) == 1 and re.match(r"^return \(Not\(<impl str>::starts_with\(.*,58\)\),", sg[0]) is not None, "Headers::sorted_headers key is not (!name.starts_with(':'), name): %s" % sg, where(f))
    f = A.fn("wtransport_proto::headers::Headers::generate_frame")
    sg = [path_sig(p)[1] for p in nonpanic(walk(f))]
    ctx.check("C16-R4", "generate_frame = HEADERS(encode(sorted))", len(sg) == 1 and re.match(r"^return Frame::new_headers\(Cow::Owned\(.*Encoder::encode\(Headers::sorted_headers\(self\)\)", sg[0]) is not None, "Headers::generate_frame changed: %s" % sg, where(f))
    import json as _json
    f = A.fn("wtransport_proto::session::SessionRequest::new")
    body_s = _json.dumps(f.body)
    for k, v in SPEC["request_pseudo"].items():
        ctx.check("C16-R4", "request %s: %s" % (k, v), ('"str": "%s"' % k) in body_s and ('"str": "%s"' % v) in body_s, "SessionRequest::new lacks the literal pair (%s, %s)" % (k, v), where(f))
    f = A.fn("wtransport_proto::session::SessionResponse::with_status_code")
    body_s = _json.dumps(f.body)
    ctx.check("C16-R4", "response :status", '"str": ":status"' in body_s, "SessionResponse::with_status_code does not use ':status'", where(f))

    ctx.rule("C16-R7", "frame payloads are written exactly once under partial writes: PutBuffer / PutVarint keep their progress in the future")
    shared.poll_loops(ctx, "C16-R7")

    ctx.rule("C16-R8", "every datagram the endpoint emits is prefixed by the varint of the session's quarter stream id and nothing else")
    shared.driver_datagram_tables(ctx, "C16-R8")

    ctx.rule("C16-R9", "the QUIC close the endpoint emits at termination carries a registered H3 code (NoError / the protocol error), never a peer-chosen number")
    shared.worker_run_table(ctx, "C16-R9")

    ctx.rule("C16-R5", "stream preambles and datagram prefix (writers)")
    shared.preamble_writers(ctx, "C16-R5")

    ctx.rule("C16-R6", "QPACK static table rows == RFC 9204 Appendix A")
    shared.qpack_static_table(ctx, "C16-R6")

    ctx.rule("C16-R10", "frame constructors and accessors: the kind written is the kind asked for, the payload is the payload given")
    table = {
        r"^wtransport_proto::frame::Frame::new_headers$": (r"^return Frame::new\(FrameKind::Headers,payload,Option::None\)$", []),
        r"^wtransport_proto::frame::Frame::new_settings$": (r"^return Frame::new\(FrameKind::Settings,payload,Option::None\)$", []),
        r"^wtransport_proto::frame::Frame::new_data$": (r"^return Frame::new\(FrameKind::Data,payload,Option::None\)$", []),
        r"^wtransport_proto::frame::Frame::new_exercise$": (r"^return Frame::new\(FrameKind::Exercise\(id\),payload,Option::None\)$", []),
        r"^wtransport_proto::frame::Frame::kind$": (r"^return self\.kind$", []),
        r"^wtransport_proto::frame::Frame::payload$": (r"^return self\.payload$", []),
        r"^wtransport_proto::settings::Settings::builder$": (r"^return SettingsBuilder\(Settings::new\(\)\)$", []),
        r"^wtransport_proto::settings::SettingsBuilder::build$": (r"^return self\.0$", []),
        r"^wtransport_proto::settings::Settings::new$": (r"^return Settings\(HashMap::new\(\)\)$", []),
    }
    shared.forwarders(ctx, "C16-R10", table, "frame/settings constructors")
    f = A.fn("wtransport_proto::frame::Frame::new")
    lf = {path_sig(p)[1] for p in nonpanic(walk(f))}
    ctx.check("C16-R10", "Frame::new stores its arguments", lf == {"return Frame(kind,payload,session_id)"}, "Frame::new does not store (kind, payload, session_id) unchanged: %s" % sorted(lf), where(f))
