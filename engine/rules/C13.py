"""C13 — unknown and GREASE protocol elements are skipped whole, with no side effects."""
import re
from rules import shared
from rules.shared import SPEC, ROLES, proto_stream_fn
from rulelib import walk, match_table, nonpanic, path_sig, event_strs, where, depth_limit, canon

EXPLANATION = ("(1) the three GREASE predicates are the same table `id >= 0x21 && (id-0x21) % 0x1f == 0`; Exercise frames are admitted by "
               "all four validate_frame tables and skipped wherever a first frame is looked for; (2) whole-frame skip: between reading an "
               "unknown frame type and the next Frame::read the wire I/O must be exactly [varint len, len bytes] — checked on the producer "
               "(Frame::read / read_async) plus every consuming loop arm; (3) the set of ErrorCode variants that can reach the connection-"
               "fatal queue from the accept_uni task must not contain StreamCreation<-UnknownStream (table composition); (4) unknown "
               "settings are ignored, reserved ones and duplicates rejected; unknown capsules / non-DATA frames on the session stream are skipped."
               ' Also (C13-R5/R6): an unknown capsule yields None without any of its bytes being re-interpreted; the slice reader consumes a varint at its on-wire length (non-minimal encodings leave nothing behind).')
NOT_DECIDED = ["transparency of arbitrary insertion sequences at run time (metamorphic)", "capsules spanning several DATA frames (observation O2)"]
TRUSTED = ["rustc MIR", "spec/h3.json (RFC 9114 §7.2.8, §6.2.3, §9)"]

WIRE = r"(BytesReader::get_varint|BytesReader::get_bytes|BytesReaderAsync::get_varint|BytesReaderAsync::get_buffer|BufferReader::skip)\("


def wire_events(p):
    out = []
    for e in event_strs(p):
        m = re.match(r"^(?:await )?(?:<.*? as )?(?:\w+::)*?(BytesReader|BytesReaderAsync)>?::(get_varint|get_bytes|get_buffer)\(", e)
        if m and not e.startswith("await "):
            out.append(m.group(2))
    return out


def run(ctx):
    A = ctx.A
    g = SPEC["grease"]
    ctx.rule("C13-R1", "GREASE predicate x3 == `id >= 0x21 && (id-0x21) %% 0x1f == 0`; Exercise admitted and skipped where a first frame is expected")
    want = {(("VarInt::into_inner(id) < %d" % g["base"],), "return 0"),
            (("VarInt::into_inner(id) >= %d" % g["base"],), "return Eq(Rem(SubWithOverflow(VarInt::into_inner(id),%d).0,%d),0)" % (g["base"], g["step"]))}
    n = 0
    for path in ("wtransport_proto::frame::FrameKind::is_id_exercise", "wtransport_proto::stream_header::StreamKind::is_id_exercise",
                 "wtransport_proto::settings::SettingId::is_exercise"):
        f = A.fn(path)
        got = {path_sig(p) for p in nonpanic(walk(f))}
        ctx.check("C13-R1", path.split("::", 1)[1], got == want, "%s is not the GREASE predicate 0x1f*N+0x21: %s" % (path, sorted(got)), where(f))
        n += 1
    ctx.floor("C13-R1", "GREASE predicates", n, 3)
    # parse(): ids outside the registry become Exercise iff the predicate holds, else unknown
    for ty, mod, unk in (("FrameKind", "frame", "Option::None"), ("StreamKind", "stream_header", "Option::None")):
        f = A.fn("wtransport_proto::%s::%s::parse" % (mod, ty))
        rest = [path_sig(p) for p in nonpanic(walk(f)) if not any(" == " in a for a in path_sig(p)[0])]
        exp = {("%s::is_id_exercise(id)" % ty, "return Option::Some(%s::Exercise(id))" % ty),
               ("!%s::is_id_exercise(id)" % ty, "return Option::None")}
        got = set()
        for a, l in rest:
            got.add((a[-1], l) if len(a) == 2 and a[0].startswith("id.0 notin ") else (a, l))
        ctx.check("C13-R1", "%s::parse fallthrough" % ty, got == exp, "%s::parse: unregistered ids are not {GREASE->Exercise(id), else None}: %s" % (ty, rest), where(f))
    shared.validate_frame_tables(ctx, "C13-R1")
    # skipped where a first frame is looked for
    shared.spawned_task_tables(ctx, "C13-R1")
    fn = A.fn("wtransport::endpoint::Endpoint::connect::{closure#0}")
    with depth_limit(3):
        ps = walk(fn)
        skip = [p for p in ps if p.leaf[0] == "loop" and any(re.search(r"^Frame::kind\(.*\) is Exercise$", a) for a in path_sig(p)[0])]
        nonskip_ex = [p for p in ps if p.leaf[0] != "loop" and any(re.search(r"^Frame::kind\(.*\) is Exercise$", a) for a in path_sig(p)[0])]
    ctx.check("C13-R1", "Endpoint::connect skips GREASE before the response", bool(skip) and not nonskip_ex,
              "Endpoint::connect does not `continue` on a GREASE frame while waiting for the response HEADERS", where(fn))
    shared.settings_runner_tables(ctx, "C13-R1")

    ctx.rule("C13-R2", "whole-frame skip: [varint len, len bytes] are consumed between an unknown frame type and the next Frame::read")
    nloops = 0
    for prod, loops, is_async in (("wtransport_proto::frame::Frame::read", "read_frame", False),
                                  ("wtransport_proto::frame::Frame::read_async::{closure#0}", "read_frame_async", True)):
        pf = A.fn(prod)
        ups = [p for p in nonpanic(walk(pf)) if "UnknownFrame" in path_sig(p)[1]]
        pseq = sorted({tuple(wire_events(p)) for p in ups})
        arms = {}
        for role in ROLES:
            lf = proto_stream_fn(A, role, loops, closure=is_async)
            cont = [p for p in walk(lf) if p.leaf[0] == "loop" and any("UnknownFrame" in a for a in path_sig(p)[0])]
            nloops += 1
            arms[role] = sorted({tuple(wire_events(p)) for p in cont})
            if not cont:
                ctx.violation("C13-R2", "%s[%s]|no-unknown-arm" % (loops, role), "cannot decide: no `UnknownFrame => continue` arm found", where(lf))
        ok_all = True
        for role, aseqs in arms.items():
            for ps_ in pseq or [()]:
                for as_ in aseqs or [()]:
                    total = list(ps_) + list(as_)
                    good = len(total) == 3 and total[0] == "get_varint" and total[1] == "get_varint" and total[2] in ("get_bytes", "get_buffer")
                    ok_all = ok_all and good
        consumed = ["[" + ", ".join(["varint type"] + ["varint len" if i == 0 else x for i, x in enumerate(s[1:])]) + "]" for s in pseq]
        ctx.sample({"rule": "C13-R2", "producer": prod, "consumed_before_UnknownFrame": consumed, "loop_arms": {k: [list(x) for x in v] for k, v in arms.items()}})
        if ok_all:
            ctx.ok("C13-R2", prod)
        else:
            ctx.violation("C13-R2", "%s|consumed=%s|arms-consume=%s" % (prod.replace("wtransport_proto::", ""), ";".join(consumed), sorted({str(list(x)) for v in arms.values() for x in v})),
                          "%s returns UnknownFrame after consuming only %s and the %d `%s` loops `continue` without skipping the frame's length and payload: the skipped frame's body is re-read as frames (affected: %s)"
                          % (prod, consumed, len(arms), loops, ", ".join("%s[%s]" % (loops, r) for r in arms)), where(pf))
    ctx.floor("C13-R2", "read_frame loops", nloops, 8)

    ctx.rule("C13-R3", "an unknown unidirectional stream type never reaches the connection-fatal queue")
    up = A.find1(r"^wtransport_proto::stream::uniremote::<impl .*?UniRemote, wtransport_proto::stream::types::Quic>>::upgrade_async::\{closure#0\}$")
    codes = {}
    for p in nonpanic(walk(up)):
        m = re.match(r"^return Result::Err\(stream::IoReadError::H3\(ErrorCode::(\w+)\)\)$", path_sig(p)[1])
        if m:
            cause = [a for a in path_sig(p)[0] if " is " in a][-1].split(" is ")[-1]
            codes[m.group(1)] = cause
    ctx.check("C13-R3", "upgrade_async error leaves", codes.get("StreamCreation") == "UnknownStream" and len(codes) >= 3,
              "cannot decide: uniremote::upgrade_async error leaves changed: %s" % codes, where(up))
    task = A.find1(r"^wtransport::driver::worker::Worker::accept_uni::\{closure#0\}::\{closure#0\}$")
    fatal = set()
    for p in nonpanic(walk(task)):
        evs = event_strs(p)
        atoms = path_sig(p)[0]
        sends = [e for e in evs if re.match(r"^OwnedPermit::send\(h3_slot,Result::Err\(DriverError::Proto\(", e)]
        if not sends:
            continue
        # which codes does this path forward?
        m = re.search(r"DriverError::Proto\(ErrorCode::(\w+)\)", sends[0])
        if m:
            fatal.add(m.group(1))
            continue
        is_ = [re.search(r" is (\w+)$", a).group(1) for a in atoms if re.search(r"as H3\)\.0 is \w+$", a)]
        isnot = [re.search(r" isnot ([\w|]+)$", a).group(1).split("|") for a in atoms if re.search(r"as H3\)\.0 isnot [\w|]+$", a)]
        eqs = [re.search(r"ErrorCode::(\w+)", a).group(1) for a in atoms if "ErrorCode as PartialEq" in a and not a.startswith("!") and re.search(r"ErrorCode::(\w+)", a)]
        neqs = [re.search(r"ErrorCode::(\w+)", a).group(1) for a in atoms if "ErrorCode as PartialEq" in a and a.startswith("!") and re.search(r"ErrorCode::(\w+)", a)]
        allowed = set(codes)
        if is_ or eqs:
            allowed &= set(is_ + eqs)
        for x in isnot:
            allowed -= set(x)
        allowed -= set(neqs)
        fatal |= allowed
    ctx.sample({"rule": "C13-R3", "upgrade_async_error_codes": codes, "codes_forwarded_to_fatal_queue": sorted(fatal)})
    ctx.check("C13-R3", "accept_uni task forwards", "StreamCreation" not in fatal,
              "the accept_uni task forwards ErrorCode::StreamCreation (= unknown stream type, from uniremote::upgrade_async) into the connection-fatal queue: "
              "a peer opening a unidirectional stream of an unknown type closes the connection with H3_STREAM_CREATION_ERROR (RFC 9114 §6.2.3 forbids this). forwarded: %s" % sorted(fatal),
              where(task), key="accept_uni-task|forwards=StreamCreation<-UnknownStream")

    ctx.rule("C13-R5", "an unknown capsule is skipped whole: type, length and value are consumed before it is dropped")
    shared.capsule_with_frame_table(ctx, "C13-R5")

    ctx.rule("C13-R6", "a skipped element is consumed at its on-wire length, whatever varint width the peer chose")
    shared.slice_reader_advance(ctx, "C13-R6")

    ctx.rule("C13-R4", "unknown settings ignored; reserved and duplicate settings rejected; unknown capsules / non-DATA session frames skipped")
    shared.settings_with_frame_table(ctx, "C13-R4")
    f = A.fn("wtransport_proto::settings::SettingId::is_reserved")
    got = sorted(int(re.search(r"== (\d+)$", a).group(1)) for p in nonpanic(walk(f)) for a in path_sig(p)[0] if path_sig(p)[1] == "return 1" and re.search(r"== (\d+)$", a))
    ctx.check("C13-R4", "SettingId::is_reserved", got == SPEC["settings_reserved"], "reserved (HTTP/2) setting ids are %s, RFC 9114 §7.2.4.1 lists %s" % (got, SPEC["settings_reserved"]), where(f))
    f = A.fn("wtransport_proto::settings::SettingId::parse")
    sig = [path_sig(p) for p in nonpanic(walk(f))]
    ok1 = ((("SettingId::is_reserved(id)",), "return Result::Err(settings::ParseError::ReservedSetting)") in [(a, l) for a, l in sig])
    ok2 = any(a[:2] == ("!SettingId::is_reserved(id)", "SettingId::is_exercise(id)") and l == "return Result::Ok(SettingId::Exercise(id))" for a, l in sig)
    ok3 = any(a[:2] == ("!SettingId::is_reserved(id)", "!SettingId::is_exercise(id)") and " notin " in a[-1] and l == "return Result::Err(settings::ParseError::UnknownSetting)" for a, l in sig)
    ctx.check("C13-R4", "SettingId::parse classes", ok1 and ok2 and ok3, "SettingId::parse: reserved/GREASE/unknown classification changed: %s" % sig[-3:], where(f))
    # session stream: unknown capsule and non-DATA frames are skipped after a complete frame read
    fn = A.find1(r"^wtransport::driver::streams::connect::ConnectStream::run::\{closure#0\}$")
    ps = walk(fn)
    sk1 = [p for p in ps if p.leaf[0] == "loop" and any(a.endswith(" isnot Data") for a in path_sig(p)[0])]
    sk2 = [p for p in ps if p.leaf[0] == "loop" and any(re.search(r"^Capsule::with_frame\(.*\) fails$", a) for a in path_sig(p)[0])]
    ctx.check("C13-R4", "ConnectStream skips non-DATA frames", len(sk1) == 1, "ConnectStream::run no longer skips non-DATA frames on the session stream", where(fn))
    ctx.check("C13-R4", "ConnectStream skips unknown capsules", len(sk2) == 1, "ConnectStream::run no longer skips unknown capsules", where(fn))
