"""C01 — stream bytes arrive exactly, in order, with framing invisible."""
import re
from rules import shared
from rulelib import walk, match_table, nonpanic, path_sig, event_strs, where, depth_limit, canon

EXPLANATION = ("Structural necessary conditions of byte-exact stream transfer: (1) the preamble writer emits exactly [varint kind.id(), varint "
               "session_id] and the readers consume exactly [varint, varint] on the WebTransport path; (2) the read primitives hand the transport "
               "exactly the remaining bytes of the field (GetVarint: buffer[0..1] then buffer[offset..varint_size]) so no application byte is "
               "swallowed; (3) no buffering layer: the stream handles are newtypes over the quinn streams and read/write/poll_* delegate with the "
               "caller's buffer and return quinn's count unchanged; (4) a SendStream is handed out only on the Ok arm of the awaited preamble "
               "write, with the connection's own session id; (5) the accept tasks hand on the very stream object the preamble was read from."
               " Also: finish() returns only after stopped() reported all data acknowledged (C01-R7); every tokio AsyncRead/AsyncWrite method of the stream wrappers delegates to the same method of the wrapped stream (poll_shutdown sends the FIN); the worker's acceptor branches carry no stream-read progress and own no pulled stream across an await (C01-R6).")
NOT_DECIDED = ["ordering / reliability / flow control of QUIC itself (quinn, trusted)", "behaviour with many concurrent streams beyond the independence facts of C07"]
TRUSTED = ["rustc MIR and type table", "quinn stream semantics"]


def run(ctx):
    A = ctx.A
    ctx.rule("C01-R1", "preamble writer/reader agreement on the WebTransport path")
    shared.preamble_writers(ctx, "C01-R1")
    shared.reader_sequences(ctx, "C01-R1")
    ctx.rule("C01-R2", "no over-read inside the primitives")
    shared.poll_loops(ctx, "C01-R2")
    shared.slice_reader_advance(ctx, "C01-R2")

    ctx.rule("C01-R3", "no buffering layer: handles are newtypes over quinn streams; I/O delegates unchanged")
    for ty, inner in (("wtransport::driver::streams::QuicRecvStream", "quinn::RecvStream"), ("wtransport::driver::streams::QuicSendStream", "quinn::SendStream"),
                      ("wtransport::stream::RecvStream", "wtransport::driver::streams::QuicRecvStream"), ("wtransport::stream::SendStream", "wtransport::driver::streams::QuicSendStream")):
        adt = A.adt(ty)
        fs = adt["variants"][0]["fields"]
        ctx.check("C01-R3", "%s is a newtype of %s" % (ty.split("::")[-1], inner.split("::")[-1]), len(fs) == 1 and fs[0]["ty"] == inner, "%s has fields %s: an intermediate buffer could reorder / retain bytes" % (ty, [(x["name"], x["ty"]) for x in fs]), adt["at"]["sp"])
    shared.proto_io_adapters(ctx, "C01-R3")
    for tr, ty, m, argn in (("tokio::io::AsyncRead", "wtransport::stream::RecvStream", "poll_read", "buf"), ("tokio::io::AsyncWrite", "wtransport::stream::SendStream", "poll_write", "buf"),
                            ("tokio::io::AsyncRead", "wtransport::driver::streams::QuicRecvStream", "poll_read", "buf"), ("tokio::io::AsyncWrite", "wtransport::driver::streams::QuicSendStream", "poll_write", "buf")):
        f = A.fn("<%s as %s>::%s" % (ty, tr, m))
        sg = [path_sig(p)[1] for p in nonpanic(walk(f))]
        ctx.check("C01-R3", "%s::%s (tokio)" % (ty.split("::")[-1], m), len(sg) == 1 and re.match(r"^return <\w+ as Async(Read|Write)>::%s\(.*self\.0.*,cx,%s\)$" % (m, argn), sg[0]) is not None, "%s tokio %s does not delegate unchanged: %s" % (ty, m, sg), where(f))
    # every method of every tokio AsyncRead / AsyncWrite impl of the crate delegates to the *same* method of the stream it wraps
    # (poll_shutdown is what sends the FIN for `AsyncWriteExt::shutdown`; poll_flush must not stand in for it)
    nio = 0
    for g in A.fn_list:
        m = re.match(r"^<wtransport::(.*) as tokio::io::Async(Read|Write)>::(poll_\w+)$", g.path)
        if not m or not g.body:
            continue
        nio += 1
        sg = [path_sig(p)[1] for p in nonpanic(walk(g, inline=shared._ONLY_BISTREAM_ACCESSORS))]
        ctx.check("C01-R3", "%s::%s (tokio) delegates to the same method" % (m.group(1).split("::")[-1], m.group(3)),
                  len(sg) == 1 and re.match(r"^return (<\w+ as Async(Read|Write)>|Async(Read|Write))::%s\(self\.[\w.]+,cx(,\w+)?\)$" % m.group(3), sg[0]) is not None,
                  "%s does not delegate to the wrapped stream's %s: %s" % (g.path, m.group(3), sg), where(g), key="tokio delegation|%s" % g.path.replace("wtransport::", ""))
    ctx.floor("C01-R3", "tokio AsyncRead/AsyncWrite methods", nio, 12)
    for nm in ("write", "write_all"):   # write_all is quinn's write_all: a single partial write must not report success
        f = A.find1(r"^wtransport::driver::streams::QuicSendStream::%s::\{closure#0\}$" % nm)
        sg = sorted(path_sig(p)[1] for p in nonpanic(walk(f)))
        W = "await(SendStream::%s(self.0,buf))" % nm
        want = sorted(["return Result::Err(err(%s))" % W, ("return Result::Ok(ok(%s))" % W) if nm == "write" else "return Result::Ok(())"])
        ctx.check("C01-R3", "QuicSendStream::%s passes buf/count/error through" % nm, sg == want, "QuicSendStream::%s does not pass buf/count/error through unchanged: %s" % (nm, sg), where(f))
    for nm, inner in (("read", "QuicRecvStream::read(self.0,buf)"), ("read_exact", "QuicRecvStream::read_exact(self.0,buf)")):
        f = A.find1(r"^wtransport::stream::RecvStream::%s::\{closure#0\}$" % nm)
        sg = [path_sig(p)[1] for p in nonpanic(walk(f))]
        ctx.check("C01-R3", "RecvStream::%s" % nm, sg == ["return await(%s)" % inner], "RecvStream::%s does not delegate unchanged: %s" % (nm, sg), where(f))
    for nm, inner in (("write", "QuicSendStream::write(self.0,buf)"), ("write_all", "QuicSendStream::write_all(self.0,buf)")):
        f = A.find1(r"^wtransport::stream::SendStream::%s::\{closure#0\}$" % nm)
        sg = [path_sig(p)[1] for p in nonpanic(walk(f))]
        ctx.check("C01-R3", "SendStream::%s" % nm, sg == ["return await(%s)" % inner], "SendStream::%s does not delegate unchanged: %s" % (nm, sg), where(f))
    f = A.find1(r"^wtransport::driver::streams::QuicRecvStream::read::\{closure#0\}$")
    R = r"await\(RecvStream::read\(self\.0,buf\)\)"
    sg = sorted(path_sig(p)[1] for p in nonpanic(walk(f)))
    ctx.check("C01-R3", "QuicRecvStream::read returns quinn's count", any(re.match(r"^return Result::Ok\(Option::Some\(ok\(ok\(%s\)\)\)\)$" % R, l) for l in sg) and "return Result::Ok(Option::None)" in sg, "QuicRecvStream::read alters quinn's result: %s" % sg, where(f))

    ctx.rule("C01-R4", "preamble before hand-out: SendStream exists only on the Ok arm of the awaited preamble write, with the given session id")
    f = A.find1(r"^wtransport::stream::OpeningUniStream::new::\{closure#0\}$")
    UP = r"await\(<impl .*?UniLocal, Quic>>>::upgrade\(quic_stream,StreamHeader::new_webtransport\(session_id\)\)\)"
    rows = [
        {"name": "preamble written->SendStream over the same stream", "atoms": [r"^%s ok$" % UP],
         "leaf": r"^return Result::Ok\(SendStream\(<impl .*?UniLocal, WT>>>::into_stream\(<impl .*?UniLocal, H3>>>::upgrade\(ok\(%s\)\)\)\)\)$" % UP},
        {"name": "stopped->Refused", "atoms": [r" is Stopped$"], "leaf": r"^return Result::Err\(StreamOpeningError::Refused\)$"},
        {"name": "not connected", "atoms": [r" is NotConnected$"], "leaf": r"^return Result::Err\(StreamOpeningError::NotConnected\)$"},
    ]
    match_table(ctx, "C01-R4", f, walk(f), rows, "OpeningUniStream")
    f = A.find1(r"^wtransport::stream::OpeningBiStream::new::\{closure#0\}$")
    UPB = r"await\(<impl .*?BiLocal, H3>>>::upgrade\(<impl .*?BiLocal, Quic>>>::upgrade\(quic_stream\),session_id\)\)"
    rows = [
        {"name": "preamble written->(SendStream, RecvStream) over the same stream", "atoms": [r"^%s ok$" % UPB],
         "leaf": r"^return Result::Ok\(\(SendStream\(<impl .*?BiLocal, WT>>>::into_stream\(ok\(%s\)\)\.0\),RecvStream\(<impl .*?BiLocal, WT>>>::into_stream\(ok\(%s\)\)\.1\)\)\)$" % (UPB, UPB)},
        {"name": "stopped->Refused", "atoms": [r" is Stopped$"], "leaf": r"^return Result::Err\(StreamOpeningError::Refused\)$"},
        {"name": "not connected", "atoms": [r" is NotConnected$"], "leaf": r"^return Result::Err\(StreamOpeningError::NotConnected\)$"},
    ]
    match_table(ctx, "C01-R4", f, walk(f), rows, "OpeningBiStream")
    # the driver-level upgrades write the header / signal frame via the proto typestate and keep the same quinn stream
    f = A.find1(r"^wtransport::driver::streams::unilocal::<impl .*UniLocal, wtransport_proto::stream::types::Quic>>>::upgrade::\{closure#0\}$")
    sg = sorted(path_sig(p)[1] for p in nonpanic(walk(f)))
    W = "await(<impl Stream<UniLocal, Quic>>::upgrade_async(self.proto,stream_header,self.stream))"
    ctx.check("C01-R4", "unilocal upgrade", sg == sorted(["return Result::Ok(streams::Stream(self.stream,ok(%s)))" % W, "return Result::Err(err(%s))" % W]), "unilocal::upgrade changed: %s" % sg, where(f))
    f = A.find1(r"^wtransport::driver::streams::bilocal::<impl .*BiLocal, wtransport_proto::stream::types::H3>>>::upgrade::\{closure#0\}$")
    sg = sorted(path_sig(p)[1] for p in nonpanic(walk(f)))
    W = "await(<impl Stream<BiLocal, H3>>::upgrade_async(self.proto,session_id,self.stream.0))"
    ctx.check("C01-R4", "bilocal upgrade", sg == sorted(["return Result::Ok(streams::Stream(self.stream,ok(%s)))" % W, "return Result::Err(err(%s))" % W]), "bilocal::upgrade changed: %s" % sg, where(f))
    for role, path, hdr in (("unilocal", r"^wtransport_proto::stream::unilocal::<impl .*UniLocal, wtransport_proto::stream::types::Quic>>::upgrade_async::\{closure#0\}$", r"^await StreamHeader::write_async\(stream_header,writer\)$"),
                            ("bilocal", r"^wtransport_proto::stream::bilocal::<impl .*BiLocal, wtransport_proto::stream::types::H3>>::upgrade_async::\{closure#0\}$", r"^await Frame::write_async\(Frame::new_webtransport\(session_id\),writer\)$")):
        f = A.find1(path)
        okp = [p for p in nonpanic(walk(f)) if path_sig(p)[1].startswith("return Result::Ok(")]
        ctx.check("C01-R4", "proto %s upgrade_async writes the preamble before returning the WT/H3 stage" % role, bool(okp) and all(any(re.match(hdr, e) for e in event_strs(p)) for p in okp),
                  "proto %s::upgrade_async returns Ok without writing the preamble" % role, where(f))
    for nm, arg in (("open_uni", "OpeningUniStream::new"), ("open_bi", "OpeningBiStream::new")):
        f = A.find1(r"^wtransport::driver::Driver::%s::\{closure#0\}$" % nm)
        sg = [path_sig(p)[1] for p in nonpanic(walk(f)) if path_sig(p)[1].startswith("return Result::Ok(")]
        ctx.check("C01-R4", "Driver::%s passes session id and the opened stream" % nm, len(sg) == 1 and re.match(r"^return Result::Ok\(%s\(session_id,ok\(await\(<impl .*>::%s\(self\.quic_connection\)\)\)\)\)$" % (arg, nm), sg[0]) is not None,
                  "Driver::%s changed: %s" % (nm, sg), where(f))

    ctx.rule("C01-R5", "the accept tasks hand on the stream object the preamble was read from (uni: kind==WebTransport; bidi: first non-GREASE frame has a session id)")
    shared.spawned_task_tables(ctx, "C01-R5")
    ctx.rule("C01-R7", "end-of-stream follows the bytes: finish() returns only after the peer acknowledged all data and the FIN")
    shared.finish_table(ctx, "C01-R7")
    ctx.rule("C01-R6", "an accepted stream is never dropped with a cancelled branch of the worker loop (its preamble is read in a task that owns it)")
    shared.acceptor_branches(ctx, "C01-R6")
    for nm in ("accept_uni", "accept_bi"):
        f = A.find1(r"^wtransport::connection::Connection::%s::\{closure#0\}$" % nm)
        with depth_limit(14):
            sg = [path_sig(p)[1] for p in nonpanic(walk(f)) if path_sig(p)[1].startswith("return Result::Ok(")]
        ctx.check("C01-R5", "Connection::%s wraps the driver's stream" % nm, len(sg) == 1 and "into_stream(" in sg[0] and "Driver::%s(" % nm in sg[0], "Connection::%s changed: %s" % (nm, sg), where(f))
