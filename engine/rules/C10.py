"""C10 — certificate-hash pinning accepts exactly the pinned, short-lived P-256 leaf."""
import re
from rules import shared
from rulelib import walk, nonpanic, path_sig, event_strs, where, depth_limit, canon, call_sites, mem_fields
from pathwalk import const_val

import witness

EXPLANATION = ("Guard dominance in ServerHashVerification::verify_server_cert: every path that returns ServerCertVerified::assertion() carries, "
               "with the right polarity, comparator and constant: !(now < not_before), !(now > not_after), (not_after - not_before) ok(x) && "
               "x <= SELF_MAX_VALIDITY (= 14 days, evaluated), algorithm == id-ecPublicKey, parameters ok(Ok(oid)) && oid == prime256v1, "
               "hashes.contains(Sha256(end_entity)). Who-may-assert: the only callers of ServerCertVerified::assertion() are the two verifiers, "
               "nobody calls HandshakeSignatureValid::assertion(); signature checks delegate to rustls with the provider's algorithms. Wiring: "
               "with_server_certificate_hashes installs ServerHashVerification over an empty root store, with_native_certs installs no custom "
               "verifier, build_default_tls_config sets the verifier iff Some; the builder method with_no_cert_validation does not exist in the "
               "default-feature build; the native root store is loaded while the guard that hides SSL_CERT_FILE / SSL_CERT_DIR is alive (drop ordering on every path). C10-R5 also requires that remove_vars_tmp removes each variable on every path (a removal conditioned on how the value reads leaves e.g. a non-UTF-8 SSL_CERT_FILE visible to rustls-native-certs).")
NOT_DECIDED = ["what rustls-native-certs reads besides the two environment variables", "rustls/webpki chain validation", "x509-parser's parsing", "the clock"]
TRUSTED = ["rustc MIR", "x509-parser accessors and OID constants", "sha2::Sha256", "rustls dangerous() API semantics"]

V = "<wtransport::tls::client::ServerHashVerification as rustls::client::danger::ServerCertVerifier>::"


def run(ctx):
    A, B = ctx.A, ctx.B
    ctx.rule("C10-R1", "guard set dominating the unique ServerCertVerified::assertion() of the hash verifier")
    f = A.fn(V + "verify_server_cert")
    with depth_limit(14):
        ps = walk(f)
        acc = [p for p in ps if "ServerCertVerified::assertion()" in path_sig(p)[1]]
        rej = [p for p in ps if p.leaf[0] == "return" and "assertion" not in path_sig(p)[1]]
        ctx.check("C10-R1", "one accepting path", len(acc) == 1 and path_sig(acc[0])[1] == "return Result::Ok(ServerCertVerified::assertion())", "verify_server_cert has %d accepting paths" % len(acc), where(f))
        SECS = r"Result::ok\(<T as TryInto<U>>::try_into\(UnixTime::as_secs\(now\)\)\)"
        NOW = r"ASN1Time::new\(Option::expect\(Result::ok\(OffsetDateTime::from_unix_timestamp\(ok\(%s\)\)\),[^()]*\)\)" % SECS
        VAL = r"TbsCertificate::validity\(ok\(<X509Certificate as FromDer<X509Error>>::from_der\((<CertificateDer as AsRef<\[u8\]>>::as_ref\(end_entity\)|end_entity)\)\)\.1(\.tbs_certificate)?\)"
        guards = {
            "not before": r"^!PartialOrd::lt\(%s,TbsCertificate::validity\(.*from_der\(.*\)\)\.1\)\.not_before\)$" % NOW,
            "not after": r"^!PartialOrd::gt\(%s,TbsCertificate::validity\(.*from_der\(.*\)\)\.1\)\.not_after\)$" % NOW,
            "validity period computable": r"^<ASN1Time as Sub>::sub\((TbsCertificate::validity\(.*from_der\(.*end_entity.*\)\)\.1\)|ok\(.*from_der\(.*end_entity.*\)\)\.1\.validity)\.not_after,(TbsCertificate::validity\(.*from_der\(.*end_entity.*\)\)\.1\)|ok\(.*from_der\(.*end_entity.*\)\)\.1\.validity)\.not_before\) ok$",
            "validity period <= 14 days": r"^PartialOrd::le\(ok\(<ASN1Time as Sub>::sub\(.*\.not_after,.*\.not_before\)\),(ServerHashVerification::SELF_MAX_VALIDITY|SignedDuration\{1209600,)",
            "key algorithm == id-ecPublicKey": r"^!PartialEq::ne\(TbsCertificate::public_key\(.*\)\.algorithm\.algorithm,OID_KEY_TYPE_EC_PUBLIC_KEY\)$",
            "now representable as i64 seconds": r"^%s ok$" % SECS,
            "curve parameters present": r"^Option::as_ref\(TbsCertificate::public_key\(.*\)\.algorithm\.parameters\) ok$",
            "curve parameters are an OID": r"^Any::as_oid\(ok\(Option::as_ref\(.*\.algorithm\.parameters\)\)\) ok$",
            "curve == prime256v1": r"^<Oid as PartialEq>::eq\(ok\(Any::as_oid\(ok\(Option::as_ref\(.*\.algorithm\.parameters\)\)\)\),OID_EC_P256\)$",
            "pinned hash of the leaf": r"^BTreeSet::contains\(self\.hashes,Sha256Digest\(<D as Digest>::digest\((<CertificateDer as AsRef<\[u8\]>>::as_ref\(end_entity\)|end_entity)\)\)\)$",
        }
        if acc:
            atoms = path_sig(acc[0])[0]
            for name, rx in guards.items():
                hit = [a for a in atoms if re.search(rx, a)]
                ctx.check("C10-R1", "guard: " + name, len(hit) >= 1,
                          "the accepting path of ServerHashVerification::verify_server_cert lacks the guard `%s` (or its polarity / comparator / operand changed); path guards: %s" % (name, [a[:90] for a in atoms]), where(f),
                          key="guard:" + name)
            ctx.sample({"rule": "C10-R1", "accepting_path_guards": [a[:160] for a in atoms]})
            extra = [a for a in atoms if not any(re.search(rx, a) for rx in guards.values()) and not a.endswith("from_der(end_entity) ok") and "from_der(" not in a]
            ctx.check("C10-R1", "no unexplained guard", not extra, "cannot decide: unrecognised guard(s) on the accepting path: %s" % extra, where(f))
        # every other return is an error
        bad = [path_sig(p)[1] for p in rej if not re.match(r"^return (Result::Err\(|Err\(from\()", path_sig(p)[1])]
        ctx.check("C10-R1", "all other paths reject", not bad and len(rej) >= 9, "verify_server_cert has a non-error return besides the asserting one: %s" % bad, where(f))
    # (that the curve parameters go through Any::as_oid() and that `now` comes from the verifier's UnixTime argument via
    # from_unix_timestamp is part of the guard expressions above: the closures are applied, not looked up by name)

    ctx.rule("C10-R2", "SELF_MAX_VALIDITY == 14 days")
    c = A.const("wtransport::tls::client::ServerHashVerification::SELF_MAX_VALIDITY")
    mem = c.get("val", {}).get("mem") or {}
    secs = None
    if isinstance(mem, dict) and "fields" in mem:
        secs = mem["fields"][0]
    ctx.check("C10-R2", "SELF_MAX_VALIDITY", secs == 14 * 24 * 3600, "SELF_MAX_VALIDITY evaluates to %s seconds, W3C WebTransport allows at most 1209600 (14 days)" % secs, c["at"]["sp"])

    ctx.rule("C10-R3", "who may assert: ServerCertVerified::assertion() only in the two verifiers; no HandshakeSignatureValid::assertion(); signatures delegated to rustls")
    callers = set()
    for fn in A.fn_list:
        if fn.body:
            for bb in fn.body["blocks"]:
                t = bb["t"]
                if t["k"] == "call" and (t["f"].get("path") or "").endswith("ServerCertVerified::assertion"):
                    callers.add(fn.path)
    want = {V + "verify_server_cert", "<wtransport::tls::client::NoServerVerification as rustls::client::danger::ServerCertVerifier>::verify_server_cert"}
    ctx.check("C10-R3", "callers of ServerCertVerified::assertion", callers == want, "ServerCertVerified::assertion() is called from %s" % sorted(callers - want or callers))
    hs = [fn.path for fn in A.fn_list if fn.body and any(bb["t"]["k"] == "call" and (bb["t"]["f"].get("path") or "").endswith("HandshakeSignatureValid::assertion") for bb in fn.body["blocks"])]
    ctx.check("C10-R3", "no HandshakeSignatureValid::assertion", not hs, "HandshakeSignatureValid::assertion() (skips the handshake signature check) is called from %s" % hs)
    for ver in ("ServerHashVerification", "NoServerVerification"):
        for m, callee in (("verify_tls12_signature", "verify_tls12_signature"), ("verify_tls13_signature", "verify_tls13_signature")):
            g = A.fn("<wtransport::tls::client::%s as rustls::client::danger::ServerCertVerifier>::%s" % (ver, m))
            sg = [path_sig(p)[1] for p in nonpanic(walk(g))]
            ctx.check("C10-R3", "%s::%s delegates" % (ver, m), sg == ["return %s(message,cert,dss,self.supported_algorithms)" % callee] or (len(sg) == 1 and re.match(r"^return %s\(message,cert,dss,self\.supported_algorithms\)$" % callee, sg[0])),
                      "%s::%s does not delegate to rustls::crypto::%s with self.supported_algorithms: %s" % (ver, m, callee, sg), where(g))
    shared.hash_pin_set(ctx, "C10-R3")

    ctx.rule("C10-R4", "wiring of the trust policies")
    g = A.find1(r"^wtransport::config::ClientConfigBuilder<wtransport::config::states::WantsRootStore>::with_server_certificate_hashes$|^wtransport::config::ClientConfigBuilder::with_server_certificate_hashes$")
    with depth_limit(8):
        ev = [e for p in nonpanic(walk(g)) for e in event_strs(p)]
    ctx.check("C10-R4", "hashes -> ServerHashVerification over an empty root store", any(re.match(r"^build_default_tls_config\(Arc::new\(RootCertStore::empty\(\)\),Option::Some\(\(?Arc::new\(ServerHashVerification::new\(hashes\)\)", e) for e in ev),
              "with_server_certificate_hashes does not install ServerHashVerification::new(hashes) over RootCertStore::empty(): %s" % [e[:160] for e in ev if e.startswith("build_default_tls_config")], where(g))
    g = A.find1(r"^wtransport::config::ClientConfigBuilder(<.*WantsRootStore>)?::with_native_certs$")
    with depth_limit(8):
        ev = [e for p in nonpanic(walk(g)) for e in event_strs(p)]
    ctx.check("C10-R4", "native certs -> no custom verifier", any(re.match(r"^build_default_tls_config\(Arc::new\(build_native_cert_store\(\)\),Option::None\)$", e) for e in ev),
              "with_native_certs does not use the native store with no custom verifier: %s" % [e[:160] for e in ev if e.startswith("build_default_tls_config")], where(g))
    g = A.fn("wtransport::tls::client::build_default_tls_config")
    with depth_limit(6):
        ps = nonpanic(walk(g))
        some = [p for p in ps if any(a == "custom_verifier ok" for a in path_sig(p)[0])]
        none = [p for p in ps if any(a == "custom_verifier fails" for a in path_sig(p)[0])]
        ok1 = bool(some) and all(any(e[0] == "call" and e[1].endswith("DangerousClientConfig::set_certificate_verifier") and canon(e[2][-1]).lstrip("(").startswith("ok(custom_verifier)") for e in p.events) for p in some)
        ok2 = bool(none) and not any("set_certificate_verifier" in e for p in none for e in event_strs(p))
        roots = all(any(re.match(r"^ConfigBuilder<ClientConfig, WantsVerifier>::with_root_certificates\(.*,root_store\)$", e) or "with_root_certificates(" in e and e.endswith(",root_store)") for e in event_strs(p)) for p in ps)
    ctx.check("C10-R4", "verifier installed iff Some", ok1 and ok2, "client build_default_tls_config does not install the custom verifier exactly when it is Some", where(g))
    ctx.check("C10-R4", "root store passed to rustls", roots, "client build_default_tls_config does not hand the given root store to rustls", where(g))
    ctx.rule("C10-R5", "default trust anchors = the platform store only: SSL_CERT_FILE / SSL_CERT_DIR are hidden while the native certs are loaded")
    g = A.fn("wtransport::tls::build_native_cert_store")
    ps = walk(g)
    n = 0
    bad = []
    for p in ps:
        seq = [(e[0], e[1] if e[0] == "call" else canon(e[1])) for e in p.events if e[0] in ("call", "drop")]
        loads = [i for i, (k, x) in enumerate(seq) if k == "call" and x.endswith("load_native_certs")]
        hides = [i for i, (k, x) in enumerate(seq) if k == "call" and x.endswith("utils::remove_vars_tmp")]
        drops = [i for i, (k, x) in enumerate(seq) if k == "drop" and x.startswith("remove_vars_tmp(")]
        if not loads:
            continue
        n += 1
        ok = bool(hides) and hides[0] < loads[0] and not any(d < loads[-1] for d in drops)
        if not ok:
            bad.append([x.split("::")[-1][:40] for _, x in seq][:8])
    ctx.check("C10-R5", "env overrides hidden across load_native_certs()", n > 0 and not bad,
              "build_native_cert_store loads the native certificates while SSL_CERT_FILE / SSL_CERT_DIR are visible (the guard returned by "
              "remove_vars_tmp is not alive across load_native_certs()): with the default trust policy the environment can then name the trust anchors: %s" % bad[:2], where(g),
              key="native store: env guard alive across load")
    names = sorted({canon(e[2][0]) for p in ps for e in p.events if e[0] == "call" and e[1].endswith("utils::remove_vars_tmp")})
    ctx.check("C10-R5", "both variables hidden", len(names) == 1 and "SSL_CERT_FILE" in names[0] and "SSL_CERT_DIR" in names[0],
              "remove_vars_tmp is not called with SSL_CERT_FILE and SSL_CERT_DIR: %s" % names, where(g))
    g2 = A.find1(r"^wtransport::tls::utils::remove_vars_tmp::\{closure#0\}$")
    ps2 = nonpanic(walk(g2))
    ev = [e for p in ps2 for e in event_strs(p)]
    ctx.check("C10-R5", "remove_vars_tmp removes each variable", any(e.startswith("remove_var(") for e in ev), "remove_vars_tmp no longer calls env::remove_var: %s" % ev[:4], where(g2))
    # ... unconditionally: a removal that depends on how the value reads (set / valid UTF-8 / non-empty) leaves some values visible to rustls-native-certs
    lacking = [list(path_sig(p)[0][-2:]) for p in ps2 if not any(re.match(r"^remove_var\(.*\bk\b.*\)$", e) for e in event_strs(p))]
    ctx.check("C10-R5", "remove_vars_tmp removes each variable on every path", bool(ps2) and not lacking,
              "remove_vars_tmp keeps a variable in the environment when %s: rustls-native-certs reads it with var_os and adds the certificates it names to the default trust anchors" % lacking[:2], where(g2),
              key="remove_vars_tmp: unconditional removal")

    # default-feature build: the insecure verifier and its builder method do not exist
    ins = [fn.path for fn in B.fn_list if fn.path.endswith("with_no_cert_validation")]
    ctx.check("C10-R4", "no `with_no_cert_validation` builder without the `dangerous-configuration` feature", not ins, "default-feature build contains %s" % ins[:3])
    witness.run(ctx, "C10-R4", {"C10"})
    insA = [fn.path for fn in A.fn_list if fn.path.endswith("with_no_cert_validation")]
    ctx.check("C10-R4", "positive control: feature build has it", len(insA) == 1, "cannot decide: with_no_cert_validation not found in the feature build (anchor moved?)")
