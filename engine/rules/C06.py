"""C06 — stream termination signals carry their codes end to end."""
import re
from rules import shared
from rulelib import walk, match_table, nonpanic, path_sig, event_strs, where, const_int
from rules.shared import SPEC

EXPLANATION = ("Mapping tables From<quinn::WriteError>, From<quinn::ReadError>, QuicSendStream::stopped / finish, QuicRecvStream::read / "
               "read_exact extracted from MIR on every path and compared with the reference rows (code payload passes through varint_q2w); "
               "varint_q2w / varint_w2q / streamid_q2w pass `into_inner()` unchanged into the other crate's from_u64_unchecked and both "
               "VarInt::MAX constants are 2^62-1; reset/stop of SendStream, RecvStream and their Quic* inner types delegate with w2q(code)."
               " C06-R7 (all written bytes, then end-of-stream): the write/read wrappers pass buffers and counts unchanged, write_all is quinn's write_all, and every tokio AsyncWrite/AsyncRead method forwards to the same method of the wrapped stream (AsyncWriteExt::shutdown -> poll_shutdown is what sends the FIN). C06-R8: the worker's acceptor branches reserve their queue slots before pulling and own no pulled stream across a later await, so no stream is dropped (= finished and stopped with code 0 by quinn) by a cancelled select branch.")
NOT_DECIDED = ["quinn's delivery of RESET_STREAM / STOP_SENDING and the acknowledgement semantics of finish()"]
TRUSTED = ["rustc MIR (resolved callees)", "quinn::VarInt invariant < 2^62", "quinn stream API semantics"]

D = "wtransport::driver::streams::"


def run(ctx):
    A = ctx.A
    ctx.rule("C06-R1", "error mapping tables (Stopped(c)->Stopped(q2w(c)), Reset(c)->Reset(q2w(c)), finish Ok iff Closed, ...)")
    f = A.fn(D + "<impl std::convert::From<quinn::WriteError> for wtransport::error::StreamWriteError>::from")
    rows = [
        {"name": "Stopped(c)->Stopped(q2w(c))", "atoms": [r"^error is Stopped$"], "leaf": r"^return StreamWriteError::Stopped\(varint_q2w\(\(error as Stopped\)\.0\)\)$"},
        {"name": "ConnectionLost->NotConnected", "atoms": [r"^error is ConnectionLost$"], "leaf": r"^return StreamWriteError::NotConnected$"},
        {"name": "ClosedStream->NotConnected", "atoms": [r"^error is ClosedStream$"], "leaf": r"^return StreamWriteError::NotConnected$"},
        {"name": "ZeroRttRejected->QuicProto", "atoms": [r"^error is ZeroRttRejected$"], "leaf": r"^return StreamWriteError::QuicProto$"},
    ]
    match_table(ctx, "C06-R1", f, walk(f), rows, "From<quinn::WriteError>")
    f = A.fn(D + "<impl std::convert::From<quinn::ReadError> for wtransport::error::StreamReadError>::from")
    rows = [
        {"name": "Reset(c)->Reset(q2w(c))", "atoms": [r"^error is Reset$"], "leaf": r"^return StreamReadError::Reset\(varint_q2w\(\(error as Reset\)\.0\)\)$"},
        {"name": "ConnectionLost->NotConnected", "atoms": [r"^error is ConnectionLost$"], "leaf": r"^return StreamReadError::NotConnected$"},
        {"name": "ClosedStream->NotConnected", "atoms": [r"^error is ClosedStream$"], "leaf": r"^return StreamReadError::NotConnected$"},
        {"name": "IllegalOrderedRead->QuicProto", "atoms": [r"^error is IllegalOrderedRead$"], "leaf": r"^return StreamReadError::QuicProto$"},
        {"name": "ZeroRttRejected->QuicProto", "atoms": [r"^error is ZeroRttRejected$"], "leaf": r"^return StreamReadError::QuicProto$"},
    ]
    match_table(ctx, "C06-R1", f, walk(f), rows, "From<quinn::ReadError>")
    f = A.find1(r"^wtransport::driver::streams::QuicSendStream::stopped::\{closure#0\}$")
    S = r"await\(SendStream::stopped\(self\.0\)\)"
    rows = [
        {"name": "Ok(None)->Closed", "atoms": [r"^ok\(%s\) fails$" % S], "leaf": r"^return StreamWriteError::Closed$"},
        {"name": "Ok(Some(c))->Stopped(q2w(c))", "atoms": [r"^ok\(%s\) ok$" % S], "leaf": r"^return StreamWriteError::Stopped\(varint_q2w\(ok\(ok\(%s\)\)\)\)$" % S},
        {"name": "ConnectionLost->NotConnected", "atoms": [r" is ConnectionLost$"], "leaf": r"^return StreamWriteError::NotConnected$"},
        {"name": "ZeroRttRejected->QuicProto", "atoms": [r" is ZeroRttRejected$"], "leaf": r"^return StreamWriteError::QuicProto$"},
    ]
    match_table(ctx, "C06-R1", f, walk(f), rows, "QuicSendStream::stopped")
    shared.finish_table(ctx, "C06-R1")
    f = A.find1(r"^wtransport::driver::streams::QuicRecvStream::read::\{closure#0\}$")
    R = r"await\(RecvStream::read\(self\.0,buf\)\)"
    rows = [
        {"name": "Some(n)->Some(n)", "atoms": [r"^ok\(%s\) ok$" % R], "leaf": r"^return Result::Ok\(Option::Some\(ok\(ok\(%s\)\)\)\)$" % R},
        {"name": "None->None", "atoms": [r"^ok\(%s\) fails$" % R], "leaf": r"^return Result::Ok\(Option::None\)$"},
        {"name": "error->From<ReadError>", "atoms": [r"^%s fails$" % R], "leaf": r"^return Result::Err\(err\(%s\)\)$" % R},
    ]
    match_table(ctx, "C06-R1", f, walk(f), rows, "QuicRecvStream::read")
    # the error map of read_exact: found on the error value (closure or fn item given to map_err), not by its name
    from pathwalk import strip_refs
    g = A.find1(r"^wtransport::driver::streams::QuicRecvStream::read_exact::\{closure#0\}$")
    maps = set()
    for p in nonpanic(walk(g)):
        if p.leaf[0] != "return":
            continue
        v = strip_refs(p.leaf[1])
        if isinstance(v, tuple) and v[0] == "call" and v[1].endswith("result::Result::map_err") and len(v[2]) == 2:
            v = ("agg", "adt", "std::result::Result", "Err", 1, (("apply", v[2][1], ("err", v[2][0])),))   # `x.map_err(F)` returned as is
        if isinstance(v, tuple) and v[0] == "agg" and v[3] == "Err" and v[5]:
            x = strip_refs(v[5][0])
            if isinstance(x, tuple) and x[0] == "apply":
                F = strip_refs(x[1])
                if isinstance(F, tuple) and F[0] == "agg" and F[1] == "closure":
                    maps.add((F[2], 2))
                elif isinstance(F, tuple) and F[0] == "fnref":
                    maps.add((F[1], 1))
    ctx.check("C06-R1", "read_exact maps its error through one function", len(maps) == 1, "QuicRecvStream::read_exact does not map quinn's ReadExactError through exactly one closure / fn: %s" % sorted(maps), where(g))
    for path_, par in sorted(maps):
        f = A.fn(path_)
        pn = f.body["locals"][par].get("name") or "arg%d" % par
        rows = [
            {"name": "FinishedEarly(n)->FinishedEarly(n)", "atoms": [r"^%s is FinishedEarly$" % pn], "leaf": r"^return StreamReadExactError::FinishedEarly\(\(%s as FinishedEarly\)\.0\)$" % pn},
            {"name": "ReadError(e)->Read(e.into())", "atoms": [r"^%s is ReadError$" % pn], "leaf": r"^return StreamReadExactError::Read\((<impl From<ReadError> for StreamReadError>::from\()?\(%s as ReadError\)\.0\)?\)$" % pn},
        ]
        match_table(ctx, "C06-R1", f, walk(f), rows, "QuicRecvStream::read_exact error map")
    for nm in ("write", "write_all"):
        f = A.find1(r"^wtransport::driver::streams::QuicSendStream::%s::\{closure#0\}$" % nm)
        sg = sorted(path_sig(p)[1] for p in nonpanic(walk(f)))
        W = "await(SendStream::%s(self.0,buf))" % nm
        want = sorted(["return Result::Err(err(%s))" % W, ("return Result::Ok(ok(%s))" % W) if nm == "write" else "return Result::Ok(())"])
        ctx.check("C06-R1", "QuicSendStream::%s" % nm, sg == want, "QuicSendStream::%s does not pass buf/count/error through unchanged: %s" % (nm, sg), where(f))

    ctx.rule("C06-R2", "code identity: varint_q2w / varint_w2q / streamid_q2w pass into_inner() unchanged; both VarInt::MAX == 2^62-1")
    for nm, src, dst in (("varint_q2w", r"quinn(_proto)?::(varint::)?VarInt::into_inner", "wtransport_proto::varint::VarInt::from_u64_unchecked"),
                         ("varint_w2q", r"wtransport_proto::varint::VarInt::into_inner", r"quinn(_proto)?::(varint::)?VarInt::from_u64_unchecked")):
        f = A.fn("wtransport::driver::utils::%s" % nm)
        ok = False
        for p in nonpanic(walk(f)):
            leaf = p.leaf[1]
            if isinstance(leaf, tuple) and leaf[0] == "call" and re.search(dst, leaf[1]) and len(leaf[2]) == 1:
                a = leaf[2][0]
                if isinstance(a, tuple) and a[0] == "call" and re.search(src, a[1]) and a[2] == (("p", 1, "varint"),):
                    ok = True
        ctx.check("C06-R2", nm, ok, "%s does not return <other>::VarInt::from_u64_unchecked(varint.into_inner())" % nm, where(f))
    f = A.fn("wtransport::driver::utils::streamid_q2w")
    ok = False
    # normal form: local helpers (e.g. varint_q2w) are looked through down to the two VarInt types
    STOPQ = re.compile(r"^wtransport_proto::(varint::VarInt|ids::StreamId)::|^quinn|^<impl .*From<quinn")
    for p in nonpanic(walk(f, inline=STOPQ)):
        leaf = p.leaf[1]
        s = path_sig(p)[1]
        if s == "return StreamId(VarInt::from_u64_unchecked(VarInt::into_inner(<impl From<StreamId> for VarInt>::from(stream_id))))":
            ok = True
    ctx.check("C06-R2", "streamid_q2w", ok, "streamid_q2w changed shape", where(f))
    ctx.check("C06-R2", "VarInt::MAX", const_int(A, "wtransport_proto::varint::VarInt::MAX") == SPEC["varint"]["max"], "wtransport VarInt::MAX != 2^62-1")
    # quinn::VarInt::MAX as seen in the debug assertion of varint_w2q
    f = A.fn("wtransport::driver::utils::varint_w2q")
    qmax = None
    from pathwalk import const_val

    def find_cn(e):
        nonlocal qmax
        if isinstance(e, tuple):
            if e and e[0] == "cn" and re.search(r"quinn.*VarInt::MAX$", e[1]):
                qmax = const_val(e)
            for x in e:
                find_cn(x)
    for p in walk(f):
        for at in p.atoms:
            find_cn(at)
    ctx.check("C06-R2", "quinn::VarInt::MAX", qmax == SPEC["varint"]["max"], "quinn::VarInt::MAX (as evaluated in varint_w2q) is %s, expected 2^62-1" % qmax, where(f))

    ctx.rule("C06-R3", "delegation: reset(c) -> quinn reset(w2q(c)); stop(c) -> quinn stop(w2q(c)); public wrappers pass the code unchanged")
    for ty, nm, call, err in (("QuicSendStream", "reset", "SendStream::reset(self.0,varint_w2q(error_code))", "ClosedStream"), ("QuicRecvStream", "stop", "RecvStream::stop(self.0,varint_w2q(error_code))", "AlreadyStop")):
        f = A.fn(D + "%s::%s" % (ty, nm))
        sg = sorted(path_sig(p) for p in nonpanic(walk(f)))
        # `x.map_err(|_| E)` returned as is, or the same thing as a `match` (quinn's Ok value is `()`)
        okm = [l for _, l in sg] == ["return Result::map_err(%s,closure:%s::{closure#0})" % (call, ty)] and shared.error_values(nonpanic(walk(f))) == {err}
        okx = sg == sorted([(("%s ok" % call,), "return Result::Ok(())"), (("%s fails" % call,), "return Result::Err(%s)" % err)])
        ctx.check("C06-R3", "%s::%s" % (ty, nm), okm or okx, "%s::%s does not pass w2q(code) to quinn and map its error to %s: %s" % (ty, nm, err, sg), where(f))
    f = A.fn("wtransport::stream::SendStream::reset")
    sg = [path_sig(p)[1] for p in nonpanic(walk(f))]
    ctx.check("C06-R3", "SendStream::reset", sg == ["return QuicSendStream::reset(self.0,error_code)"], "SendStream::reset changed: %s" % sg, where(f))
    f = A.fn("wtransport::stream::RecvStream::stop")
    ev = [e for p in nonpanic(walk(f)) for e in event_strs(p)]
    ctx.check("C06-R3", "RecvStream::stop", any(re.match(r"^QuicRecvStream::stop\(self\.0,error_code\)$", e) for e in ev), "RecvStream::stop does not pass the code to QuicRecvStream::stop: %s" % ev, where(f))
    for nm, inner in (("finish", "QuicSendStream::finish(self.0)"), ("stopped", "QuicSendStream::stopped(self.0)"), ("write", "QuicSendStream::write(self.0,buf)"), ("write_all", "QuicSendStream::write_all(self.0,buf)")):
        f = A.find1(r"^wtransport::stream::SendStream::%s::\{closure#0\}$" % nm)
        sg = [path_sig(p)[1] for p in nonpanic(walk(f))]
        ctx.check("C06-R3", "SendStream::%s" % nm, sg == ["return await(%s)" % inner], "SendStream::%s does not delegate unchanged: %s" % (nm, sg), where(f))
    for nm, inner in (("read", "QuicRecvStream::read(self.0,buf)"), ("read_exact", "QuicRecvStream::read_exact(self.0,buf)")):
        f = A.find1(r"^wtransport::stream::RecvStream::%s::\{closure#0\}$" % nm)
        sg = [path_sig(p)[1] for p in nonpanic(walk(f))]
        ctx.check("C06-R3", "RecvStream::%s" % nm, sg == ["return await(%s)" % inner], "RecvStream::%s does not delegate unchanged: %s" % (nm, sg), where(f))
    ctx.rule("C06-R7", "a finished stream yields all written bytes and then end-of-stream: write_all is quinn's write_all, every tokio poll_* (poll_shutdown = FIN) forwards to the same method")
    shared.stream_io_delegation(ctx, "C06-R7")

    ctx.rule("C06-R8", "no signal the application did not raise: an accepted stream is never dropped with a cancelled branch of the worker loop (dropping it finishes / stops it with code 0)")
    shared.acceptor_branches(ctx, "C06-R8")
