"""C05 — control-plane interpretation is independent of segmentation and interleaving."""
import re
import corowit
from corowit import CoroIndex, ty_short
from rulelib import walk, match_table, nonpanic, path_sig, where

EXPLANATION = ("Coroutine-witness analysis: rustc's coroutine layout gives, for every `.await`, the exact set of values an async "
               "body holds while suspended. A future that carries stream-read progress (GetVarint/GetBuffer/ReadExact, "
               "transitively through every awaited future) must not be a freshly created branch of a `select!` inside a loop, "
               "because the losing branch is dropped each iteration and the bytes it consumed are lost. Every select site, "
               "every branch, and every await of a progress-carrying future in both crates is enumerated with its cancellation "
               "context; the EOF classification (ImmediateFin iff nothing read) is checked as a decision table."
               ' Also (C05-R6/R7): buffered readers commit the child reader only when a frame was returned; the adapter that feeds control-plane bytes to the parsers reports exactly the bytes quinn filled. C05-R8: the worker loop that polls the control, request and session streams suspends only in its select!; a branch handler that waits (for instance for room in the datagram or stream queue of the application) would stop every control-plane stream from being read while datagrams / streams arrive between the pieces. C05-R9: the decision tables of Worker::handle_bi_h3_stream / handle_uni_h3_stream are the reference ones, so the fate of a request or critical stream depends on its own first frame and on its own slot only, not on the progress of another stream (for instance whether SETTINGS has been read yet).')
NOT_DECIDED = ["the outcome under one concrete packetisation (needs the running driver)", "quinn's own reassembly"]
TRUSTED = ["rustc coroutine layout (mir state transform)", "reviewed leaf-future table in engine/corowit.py", "tokio::select! drops losing branch futures"]

DISCARD_ONLY = {
    "wtransport::driver::streams::qpack::RemoteQPackEncStream::run::{closure#0}": "bytes are never interpreted (64-byte discard buffer); only EOF/reset matter, which is position independent",
    "wtransport::driver::streams::qpack::RemoteQPackDecStream::run::{closure#0}": "bytes are never interpreted (64-byte discard buffer); only EOF/reset matter, which is position independent",
}


def short_chain(chain):
    out = []
    for c in chain:
        c = re.sub(r"^wtransport(_proto)?::", "", c)
        c = c.replace("::{closure#0}", "")
        c = re.sub(r"<impl .*?Stream<.*?types::(\w+), .*?types::(\w+)>>>?", r"Stream<\1,\2>", c)
        c = re.sub(r"<impl [^>]*Stream<[^>]*types::(\w+), [^>]*types::(\w+)>>", r"Stream<\1,\2>", c)
        out.append(c)
    return ">".join(out)


def own_state(ctx, idx):
    """The futures below `Worker::run_control_streams` interpret the control plane and are dropped and re-created on every iteration of the
    worker loop.  Whatever such a future keeps in a local across a suspension (a flag 'SETTINGS seen', a counter, a partially filled
    buffer) is forgotten at an arbitrary moment, which makes the interpretation depend on how the peer's bytes were segmented.  State
    must live behind `self` (it survives the re-creation).  Saved locals of reference type, the select machinery and the awaited future
    itself are not state of the runner."""
    root = "wtransport::driver::worker::Worker::run_control_streams::{closure#0}"
    n = 0
    for d in sorted(idx.awaited_local(root) | {root}):
        c = idx.coros.get(d)
        if c is None or not (d == root or re.search(r"^wtransport::driver::streams::(settings|connect|qpack)::", d)):
            continue
        for s in c.susp:
            own = []
            for nm, ty in s.held_types():
                if ty.get("k") in ("ref", "ptr"):
                    continue
                if s.is_select and nm in ("disabled", "futures", "output"):
                    continue
                own.append((nm, ty_short(ty)[:60]))
            n += 1
            ctx.check("C05-R5", "%s|susp%d keeps only borrows" % (short_chain([d]), s.variant), not own,
                      "%s keeps %s in the future across an await; Worker::run_impl's select! loop drops and re-creates this future on every "
                      "iteration, so that state is lost at a point that depends on packet segmentation" % (short_chain([d]), own), s.where,
                      key="%s keeps own state %s" % (short_chain([d]), ",".join(o[0] or "?" for o in own)))
    ctx.floor("C05-R5", "suspension points of control-stream runners", n, 6)


def run(ctx):
    idx = CoroIndex(ctx.A)
    ctx.count("coroutines", len(idx.coros))
    ctx.count("suspension_points", sum(len(c.susp) for c in idx.coros.values()))

    ctx.rule("C05-R1", "no freshly created branch future of a select! inside a loop carries stream-read progress (PCF)")
    sites = idx.select_sites()
    ctx.floor("C05-R1", "select sites", len(sites), 2)
    nbr = 0
    for s in sites:
        in_loop, fresh, branches = idx.select_info(s)
        sname = short_chain([s.coro.path])
        if branches is None or in_loop is None:
            ctx.violation("C05-R1", "select@%s|unanalysable" % sname, "cannot decide: select site without futures tuple / unmatched yield", s.where)
            continue
        for bi, b in enumerate(branches):
            nbr += 1
            bname = ty_short(b)
            res = idx.classify(b, "pcf")
            hits = [c for k, c in res if k == "hit"]
            unk = [c for k, c in res if k == "unknown"]
            site = "select@%s|branch=%s" % (sname, bname)
            ctx.sample({"rule": "C05-R1", "select": s.coro.path, "at": s.where, "in_loop": in_loop, "fresh_per_iteration": fresh,
                        "branch": bname, "pcf_chains": [short_chain(c) for c in hits][:6], "unknown": [short_chain(c) for c in unk][:4]})
            if not (in_loop and fresh):
                ctx.ok("C05-R1", site, "not re-created in a loop")
                continue
            if unk:
                for c in unk:
                    ctx.violation("C05-R1", site + "|unclassified=" + short_chain(c),
                                  "cannot decide: select-loop branch awaits an unclassified future %s" % short_chain(c), s.where)
            # group hits by the local coroutine directly below the select that carries it
            carriers = {}
            for c in hits:
                direct = b.get("did") if b.get("k") == "cor" else None
                # is the progress carried under a discard-only runner?
                disc = [d for d in c if d in DISCARD_ONLY]
                if disc:
                    ctx.ok("C05-R1", site + "|discard-only=" + short_chain(disc[:1]), DISCARD_ONLY[disc[0]])
                    continue
                carriers.setdefault(short_chain(c), c)
            if not carriers and not unk:
                ctx.ok("C05-R1", site)
            for ck, c in sorted(carriers.items()):
                # key: site + first runner below the nested select + leaf
                runner = [d for d in c if d.endswith("::run::{closure#0}") or "read_frame" in d]
                key = "%s|carrier=%s>…>%s" % (site, short_chain(runner[:1]) if runner else short_chain(c[:1]), short_chain(c[-1:]))
                ctx.violation("C05-R1", key,
                              "select! in a loop re-creates branch `%s` every iteration; it awaits %s whose drop discards bytes already read from the stream (chain: %s)"
                              % (bname, c[-1], short_chain(c)), s.where)
    ctx.count("select_branches", nbr)
    ctx.floor("C05-R1", "select branches", nbr, 14)

    ctx.rule("C05-R5", "control-stream runner futures are re-created by the select loop, so they keep no state of their own across an await: only borrows of self")
    own_state(ctx, idx)

    ctx.rule("C05-R6", "buffered readers consume nothing of an incomplete frame: the child reader is committed only when a frame was returned")
    from rules import shared
    shared.from_buffer_commit(ctx, "C05-R6")

    ctx.rule("C05-R7", "the adapter that feeds control-plane bytes to the parsers reports exactly what arrived")
    shared.proto_io_adapters(ctx, "C05-R7")

    ctx.rule("C05-R8", "events between the pieces never stop the control-plane streams from being polled: the worker loop suspends only in its select!, branch handlers never wait (e.g. for room in an application queue)")
    shared.worker_loop_never_parks(ctx, "C05-R8", idx)

    ctx.rule("C05-R2", "inventory of every await of a progress-carrying future with its cancellation context")
    spawned = {cor for _, _, cor in idx.spawn_sites() if cor}
    inv = []
    for c in idx.coros.values():
        for s in c.susp:
            aw = s.awaitee
            if aw is None or s.is_select:
                continue
            t = aw["ty_j"]
            if t.get("k") in ("adt", "cor") and t["did"] in corowit.PCF_LEAVES:
                inv.append((c.path, t["did"], s.where))
    ctx.count("direct_pcf_awaits", len(inv))
    ctx.floor("C05-R2", "direct PCF awaits", len(inv), 7)
    for p, d, w in inv[:12]:
        ctx.sample({"rule": "C05-R2", "coroutine": short_chain([p]), "awaits": d.split("::")[-1], "at": w})
    ctx.ok("C05-R2", "inventory", "%d direct awaits of PCF leaves; %d spawned tasks" % (len(inv), len(spawned)))

    ctx.rule("C05-R3", "EOF classification: ImmediateFin iff nothing was read; later fields map ImmediateFin->UnexpectedFin")
    eof_rules(ctx, "C05-R3")

    ctx.rule("C05-R9", "what else has arrived does not decide a request's fate: the worker's handlers of a new H3 stream consult only the stream's own first frame / kind and the slot it would occupy")
    shared.handle_bi_table(ctx, "C05-R9")
    shared.handle_uni_table(ctx, "C05-R9")


def eof_rules(ctx, rid):
    A = ctx.A
    # GetVarint::poll / GetBuffer::poll leaves
    gv = A.fn("<wtransport_proto::bytes::r#async::GetVarint<R> as std::future::Future>::poll")
    ps = nonpanic(walk(gv))
    imm = [p for p in ps if "ImmediateFin" in path_sig(p)[1]]
    unx = [p for p in ps if "UnexpectedFin" in path_sig(p)[1]]
    ok1 = bool(imm) and all(any(re.search(r"offset == 0$", a) for a in path_sig(p)[0]) and not any("varint_size" in e and "store" in e for e in []) for p in imm)
    ctx.check(rid, "GetVarint ImmediateFin iff offset==0", ok1, "GetVarint::poll returns ImmediateFin on a path where offset != 0: %s" % [path_sig(p)[0] for p in imm], where(gv))
    from rulelib import event_strs
    ok2 = bool(unx) and all(any(re.search(r"self\.offset != 0$", a) for a in path_sig(p)[0]) or
                            any(re.match(r"^store self\.offset := 1$", e) for e in event_strs(p)) for p in unx)
    ctx.check(rid, "GetVarint UnexpectedFin only after first byte", ok2, "GetVarint::poll UnexpectedFin path not guarded by offset>0: %s" % [path_sig(p)[0] for p in unx], where(gv))
    gb = A.fn("<wtransport_proto::bytes::r#async::GetBuffer<R> as std::future::Future>::poll")
    ps = nonpanic(walk(gb))
    imm = [p for p in ps if "ImmediateFin" in path_sig(p)[1]]
    unx = [p for p in ps if "UnexpectedFin" in path_sig(p)[1]]
    ok3 = bool(imm) and all(any(re.search(r"offset <= 0$", a) for a in path_sig(p)[0]) for p in imm)
    ok4 = bool(unx) and all(any(re.search(r"offset > 0$", a) for a in path_sig(p)[0]) for p in unx)
    ctx.check(rid, "GetBuffer ImmediateFin iff offset==0", ok3, "GetBuffer::poll ImmediateFin not guarded by offset == 0: %s" % [path_sig(p)[0] for p in imm], where(gb))
    ctx.check(rid, "GetBuffer UnexpectedFin iff offset>0", ok4, "GetBuffer::poll UnexpectedFin not guarded by offset > 0: %s" % [path_sig(p)[0] for p in unx], where(gb))
    # EOF of the source in Frame::read_async / StreamHeader::read_async: at the first read the error passes through unchanged
    # (ImmediateFin = clean end); at every later read it goes through a map {ImmediateFin -> UnexpectedFin, other -> same}.
    # The map is found on the error value itself (closure or fn item given to map_err), whatever it is called.
    from pathwalk import strip_refs
    from rulelib import canon
    from rules.shared import _reader_seq

    def remap_ok(F):
        F = strip_refs(F)
        if isinstance(F, tuple) and F[0] == "agg" and F[1] == "closure":
            g, par = A.fn(F[2]), 2
        elif isinstance(F, tuple) and F[0] == "fnref":
            g, par = A.fn_opt(F[1]), 1
        else:
            return False, "not a closure / fn item"
        if g is None or g.body is None:
            return False, "body not found"
        rows = set()
        for p in nonpanic(walk(g)):
            at = [a for a in p.atoms if a[0] in ("is", "isnot")]
            subj_is_param = all(isinstance(strip_refs(a[1]), tuple) and strip_refs(a[1])[0] == "p" and strip_refs(a[1])[1] == par for a in at)
            if not subj_is_param or len(at) != 1 or p.leaf[0] != "return":
                return False, "unexpected shape %s" % (path_sig(p),)
            a0 = at[0]
            leaf = strip_refs(p.leaf[1])
            if a0[0] == "is" and a0[2] == "ImmediateFin":
                rows.add(("ImmediateFin", canon(leaf).split("::")[-1]))
            elif (a0[0] == "isnot" and tuple(a0[2]) == ("ImmediateFin",)) or (a0[0] == "is" and a0[2] != "ImmediateFin"):
                same = isinstance(leaf, tuple) and leaf[0] == "p" and leaf[1] == par
                same = same or (a0[0] == "is" and canon(leaf).split("::")[-1] == a0[2])
                rows.add(("other", "same" if same else canon(leaf)))
            else:
                return False, "unexpected arm %s" % (path_sig(p),)
        good = ("ImmediateFin", "UnexpectedFin") in rows and all(r[1] == "same" for r in rows if r[0] == "other") and any(r[0] == "other" for r in rows)
        return good, sorted(rows)

    for owner, want in (("wtransport_proto::frame::Frame::read_async::{closure#0}", 3), ("wtransport_proto::stream_header::StreamHeader::read_async::{closure#0}", 1)):
        g = A.fn(owner)
        first = later = 0
        for p in nonpanic(walk(g)):
            if p.leaf[0] != "return":
                continue
            v = strip_refs(p.leaf[1])
            if not (isinstance(v, tuple) and v[0] == "agg" and v[1] == "adt" and v[3] == "Err" and v[5]):
                continue
            x = v[5][0]
            io = canon(x)
            at = path_sig(p)[0]
            if not (at and re.match(r"^await\((BytesReaderAsync::)?get_(varint|buffer)\(.*\)\) fails$", at[-1])):
                continue    # a protocol error (unknown type, too big ...), not a failed read of the source
            k = len(_reader_seq(p))
            site = "%s|read#%d" % (owner.split("::")[-3], k)
            if k <= 1:
                first += 1
                ctx.check(rid, site + " EOF passes through", isinstance(x, tuple) and x[0] == "err",
                          "%s::read_async maps the error of its FIRST read (%s): a clean end of stream is no longer reported as ImmediateFin" % (owner.split("::")[-3], io[:120]), where(g), key=site)
            else:
                later += 1
                okm, detail = (False, "no map") if not (isinstance(x, tuple) and x[0] == "apply") else remap_ok(x[1])
                ctx.check(rid, site + " EOF inside the frame -> UnexpectedFin (EOF remap)", okm,
                          "%s::read_async: the error of read #%d is not passed through the EOF remap {ImmediateFin -> UnexpectedFin, other -> same}: %s" % (owner.split("::")[-3], k, detail), where(g), key=site)
        ctx.floor(rid, "EOF paths of %s (first read)" % owner.split("::")[-3], first, 1)
        ctx.floor(rid, "EOF paths of %s (later reads)" % owner.split("::")[-3], later, want)
