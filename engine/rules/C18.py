"""C18 — only well-formed WebTransport requests and responses are admitted."""
import re
from rules import shared
from rules.shared import SPEC
from rulelib import (walk, match_table, nonpanic, path_sig, event_strs, where, depth_limit, canon,
                     construction_sites, const_int)
from pathwalk import const_val
import intervals

import witness

EXPLANATION = ("(1) TryFrom<Headers> for SessionRequest: Ok is reached only under the five guards (:method==CONNECT, :scheme==https, "
               ":protocol==webtransport, :authority and :path present), each failing guard has its own error; (2) StatusCode invariant: "
               "every construction site of StatusCode in both crates either uses a constant in 100..=599 or is dominated by guards that bound "
               "the value to 100..=599 (interval derived from the path's comparisons); response parsing goes through that constructor; "
               "is_successful is [200,300); (3) RESERVED_HEADERS is exactly the five names and insert() writes only when not reserved; "
               "(4) SessionRequest::new derives scheme guard/authority/path+query (string algebra); (5) server refusal codes and client response handling tables; "
               "(6) the reserved-name guard and the map see the same string: Headers::insert / get are the identity on names and values. C18-R7: SessionResponse::ok / forbidden / not_found / too_many_requests carry 200 / 403 / 404 / 429 through with_status_code into the ':status' field, SessionResponse::code parses that same field, StatusCode::into_inner / try_from_u32 pass the number unchanged.")
NOT_DECIDED = ["the url crate's parsing", "arbitrary header maps at run time"]
TRUSTED = ["rustc MIR", "std str::parse::<u16>, Range::contains", "url::Url accessors"]


def run(ctx):
    A = ctx.A
    st = SPEC["status"]
    ctx.rule("C18-R1", "SessionRequest::try_from(Headers): Ok only under the five guards; one error per failing guard")
    fn = A.fn("<wtransport_proto::session::SessionRequest as std::convert::TryFrom<wtransport_proto::headers::Headers>>::try_from")
    G = lambda k: r"^Headers::get\(headers,'%s'\) ok$" % k
    EQ = lambda k, v: r"^!<impl PartialEq<&B> for &A>::ne\(ok\(Headers::get\(headers,'%s'\)\),'%s'\)$" % (k, v)
    NE = lambda k, v: r"^<impl PartialEq<&B> for &A>::ne\(ok\(Headers::get\(headers,'%s'\)\),'%s'\)$" % (k, v)
    MISS = lambda k: r"^Headers::get\(headers,'%s'\) fails$" % k
    ps = SPEC["request_pseudo"]
    rows = [
        {"name": "accepted", "atoms": [G(":method"), EQ(":method", ps[":method"]), G(":scheme"), EQ(":scheme", ps[":scheme"]), G(":protocol"),
                                       EQ(":protocol", ps[":protocol"]), G(":authority"), G(":path")], "leaf": r"^return Result::Ok\(SessionRequest\(headers\)\)$"},
        {"name": "missing :method", "atoms": [MISS(":method")], "leaf": r"MissingMethod"},
        {"name": "method not CONNECT", "atoms": [NE(":method", ps[":method"])], "leaf": r"MethodNotConnect"},
        {"name": "missing :scheme", "atoms": [MISS(":scheme")], "leaf": r"MissingScheme"},
        {"name": "scheme not https", "atoms": [NE(":scheme", ps[":scheme"])], "leaf": r"SchemeNotHttps"},
        {"name": "missing :protocol", "atoms": [MISS(":protocol")], "leaf": r"MissingProtocol"},
        {"name": "protocol not webtransport", "atoms": [NE(":protocol", ps[":protocol"])], "leaf": r"ProtocolNotWebTransport"},
        {"name": "missing :authority", "atoms": [MISS(":authority")], "leaf": r"MissingAuthority"},
        {"name": "missing :path", "atoms": [MISS(":path")], "leaf": r"MissingPath"},
    ]
    match_table(ctx, "C18-R1", fn, walk(fn), rows, "SessionRequest::try_from")

    ctx.rule("C18-R2", "StatusCode invariant: every construction is a constant in 100..=599 or dominated by guards bounding it to 100..=599")
    n = 0
    seen = set()
    for f, p, ops, atoms in construction_sites(A, "wtransport_proto::ids::StatusCode"):
        if p is None:
            ctx.violation("C18-R2", "construct@%s|too-many-paths" % f.path, "cannot decide: too many paths", where(f))
            continue
        x = ops[0]
        v = intervals.cval(x)
        site = "construct@%s|%s" % (f.path.replace("wtransport_proto::", ""), canon(x))
        if site in seen:
            continue
        n += 1
        if v is not None:
            seen.add(site)
            ctx.check("C18-R2", site, st["min"] <= v <= st["max"], "StatusCode constant %d outside %d..=%d" % (v, st["min"], st["max"]), where(f))
            continue
        lo, hi = intervals.bounds(atoms, x)
        okk = lo is not None and hi is not None and lo >= st["min"] and hi <= st["max"]
        if okk:
            seen.add(site)
            ctx.ok("C18-R2", site, "bounded to [%s,%s] by dominating guards" % (lo, hi))
        else:
            seen.add(site)
            ctx.violation("C18-R2", site, "%s constructs StatusCode(%s) from a value that the dominating guards bound only to [%s,%s]; the type's invariant is %d..=%d"
                          % (f.path, canon(x), lo, hi, st["min"], st["max"]), where(f))
    ctx.floor("C18-R2", "StatusCode construction sites", n, 4)
    for name, want in (("MIN", st["min"]), ("MAX", st["max"]), ("OK", st["ok"]), ("FORBIDDEN", st["forbidden"]), ("NOT_FOUND", st["not_found"]), ("TOO_MANY_REQUESTS", st["too_many_requests"])):
        v = const_int(A, "wtransport_proto::ids::StatusCode::%s" % name)
        ctx.check("C18-R2", "StatusCode::%s" % name, v == want, "StatusCode::%s is %d, expected %d" % (name, v, want))
    f = A.fn("wtransport_proto::ids::StatusCode::is_successful")
    ls = [path_sig(p)[1] for p in nonpanic(walk(f))]
    ctx.check("C18-R2", "is_successful == [200,300)", ls == ["return Range::contains(Range{%d,%d},self.0)" % (st["success_lo"], st["success_hi"])],
              "StatusCode::is_successful is not `(200..300).contains(self.0)`: %s" % ls, where(f))
    # StatusCode's field is private and no other constructor exists (who-may-construct)
    adt = A.adt("wtransport_proto::ids::StatusCode")
    fld = adt["variants"][0]["fields"][0]
    ctx.check("C18-R2", "StatusCode field private", fld["vis"] not in ("pub",), "StatusCode's inner field is public: the range invariant can be bypassed", adt["at"]["sp"])
    # response parsing: `:status` goes through str::parse::<StatusCode>
    f = A.fn("<wtransport_proto::session::SessionResponse as std::convert::TryFrom<wtransport_proto::headers::Headers>>::try_from")
    rows = [
        {"name": "missing :status", "atoms": [r"^Headers::get\(headers,':status'\) fails$"], "leaf": r"MissingStatusCode"},
        {"name": "invalid :status", "atoms": [r"^<impl str>::parse\(ok\(Headers::get\(headers,':status'\)\)\) fails$"], "leaf": r"^return Result::Err\(HeadersParseError::InvalidStatusCode\)$"},
        {"name": "valid :status", "atoms": [r"^<impl str>::parse\(ok\(Headers::get\(headers,':status'\)\)\) ok$"],
         "leaf": r"^return Result::Ok\(SessionResponse::with_status_code\(ok\(<impl str>::parse\(ok\(Headers::get\(headers,':status'\)\)\)\)\)\)$"},
    ]
    ps_ = walk(f)
    match_table(ctx, "C18-R2", f, ps_, rows, "SessionResponse::try_from")
    targs = {tuple(e[5].get("targs", [])) for p in ps_ for e in p.events if e[0] == "call" and e[1].endswith("str>::parse")}
    ctx.check("C18-R2", "status parsed as StatusCode", targs == {("wtransport_proto::ids::StatusCode",)}, "`:status` is not parsed into StatusCode: %s" % targs, where(f))

    witness.run(ctx, "C18-R2", {"C18"})

    ctx.rule("C18-R3", "RESERVED_HEADERS == the five pseudo-headers; insert() writes only when the key is not reserved")
    c = A.const("wtransport_proto::session::SessionRequest::RESERVED_HEADERS")
    mem = c.get("val", {}).get("mem")
    ctx.check("C18-R3", "RESERVED_HEADERS", isinstance(mem, list) and sorted(mem) == sorted(SPEC["reserved_headers"]),
              "RESERVED_HEADERS is %s, expected %s" % (mem, SPEC["reserved_headers"]), c["at"]["sp"])
    f = A.fn("wtransport_proto::session::SessionRequest::insert")
    ANY = r"<Iter<T> as Iterator>::any\(<impl \[T\]>::iter\(SessionRequest::RESERVED_HEADERS\),closure:SessionRequest::\{closure#0\}\)"
    rows = [
        {"name": "reserved->rejected, map untouched", "atoms": [r"^%s$" % ANY], "not_events": [r"Headers::insert"], "leaf": r"^return Result::Err\(ReservedHeader\)$"},
        {"name": "not reserved->inserted", "atoms": [r"^!%s$" % ANY], "events": [r"^Headers::insert\(self\.0,ToString::to_string\(key\),value\)$"], "leaf": r"^return Result::Ok\(\(\)\)$"},
    ]
    match_table(ctx, "C18-R3", f, walk(f), rows, "SessionRequest::insert")
    cl = A.find1(r"^wtransport_proto::session::SessionRequest::insert::\{closure#0\}$")
    ls = [path_sig(p)[1] for p in nonpanic(walk(cl))]
    ctx.check("C18-R3", "reserved predicate is equality with the key", len(ls) == 1 and re.search(r"PartialEq.*::eq\(rh,key\)|::eq\(rh,_1\.0\)|::eq\(", ls[0]) is not None,
              "reserved-name predicate is not `rh == &key`: %s" % ls, where(cl))

    ctx.rule("C18-R4", "SessionRequest::new: https guard, authority = url.authority(), path = path + ?query; fixed pseudo-headers")
    f = A.fn("wtransport_proto::session::SessionRequest::new")
    with depth_limit(6):
        ps_ = nonpanic(walk(f))
        rej = [p for p in ps_ if "SchemeNotHttps" in path_sig(p)[1]]
        acc = [p for p in ps_ if path_sig(p)[1].startswith("return Result::Ok(SessionRequest(")]
        ok1 = bool(rej) and all(any(re.search(r"^<impl PartialEq<&B> for &A>::ne\(Url::scheme\(.*\),'https'\)$", a) for a in path_sig(p)[0]) for p in rej)
        ok2 = bool(acc) and all(any(re.search(r"^!<impl PartialEq<&B> for &A>::ne\(Url::scheme\(.*\),'https'\)$", a) for a in path_sig(p)[0]) for p in acc)
    ctx.check("C18-R4", "scheme guard", ok1 and ok2, "SessionRequest::new does not gate on url.scheme() == \"https\"", where(f))
    evs = [e for p in acc for e in event_strs(p)]
    lits = set()
    for p in acc:
        for e in p.events:
            if e[0] == "call":
                for a in e[2]:
                    pass
    # literal pseudo-header table: constants reachable in the header array aggregate
    import json as _json
    body_s = _json.dumps(f.body)
    for k, v in SPEC["request_pseudo"].items():
        ctx.check("C18-R4", "pseudo %s=%s" % (k, v), ('"str": "%s"' % k) in body_s and ('"str": "%s"' % v) in body_s,
                  "SessionRequest::new does not use the literal pair (%s, %s)" % (k, v), where(f))
    ctx.check("C18-R4", "authority/path sources", any("Url::authority(" in e for e in evs) and any("Url::path(" in e for e in evs) and any("Url::query(" in e for e in evs),
              "SessionRequest::new no longer derives :authority/:path from Url::authority()/path()/query()", where(f))

    shared.request_from_url(ctx, "C18-R4")
    ctx.rule("C18-R6", "the reserved-name guard and the store see the same string: Headers::insert / get are identity on names")
    shared.headers_store_identity(ctx, "C18-R6")

    ctx.rule("C18-R5", "server refusal codes (stream-level) and client handling of the response status")
    shared.handle_bi_table(ctx, "C18-R5")
    shared.connect_response_table(ctx, "C18-R5")

    ctx.rule("C18-R7", "status plumbing: the code the client judges is the parsed :status, the refusals carry the documented codes")
    table = {
        r"^wtransport_proto::ids::StatusCode::into_inner$": (r"^return self\.0$", []),
        r"^wtransport_proto::ids::StatusCode::try_from_u32$": (r"^return (<T as TryInto<U>>::try_into|<StatusCode as TryFrom<u32>>::try_from)\(value\)$", []),
        r"^wtransport_proto::session::SessionResponse::ok$": (r"^return SessionResponse::with_status_code\(StatusCode::OK=200\)$", []),
        r"^wtransport_proto::session::SessionResponse::forbidden$": (r"^return SessionResponse::with_status_code\(StatusCode::FORBIDDEN=403\)$", []),
        r"^wtransport_proto::session::SessionResponse::not_found$": (r"^return SessionResponse::with_status_code\(StatusCode::NOT_FOUND=404\)$", []),
        r"^wtransport_proto::session::SessionResponse::too_many_requests$": (r"^return SessionResponse::with_status_code\(StatusCode::TOO_MANY_REQUESTS=429\)$", []),
        r"^wtransport_proto::session::SessionResponse::with_status_code$": (r"^return SessionResponse\(Iterator::collect\(<impl IntoIterator for \[T; N\]>::into_iter\(\[\(':status',<T as ToString>::to_string\(status_code\)\)\]\)\)\)$", []),
        r"^wtransport_proto::session::SessionResponse::code$": (r"^return Result::expect\(<impl str>::parse\(Option::expect\(Headers::get\(self\.0,':status'\),'[^']*'\)\),'[^']*'\)$", []),
    }
    shared.forwarders(ctx, "C18-R7", table, "status plumbing")
