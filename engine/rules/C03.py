"""C03 — datagram payloads are never altered and the size contract is exact."""
import re
from rules import shared
from rulelib import walk, match_table, nonpanic, path_sig, event_strs, where, canon, apply_closure
import obligations

import witness

EXPLANATION = ("Framing agreement between proto Datagram::write / write_size / read and the driver's Datagram::read / write (same header term, "
               "payload offset = len(quic) - len(payload), payload()/Deref slice from that one field); quarter-stream-id conversion on both "
               "sides; size contract max_datagram_size = quinn_max - header_size(session) with send_datagram handing header++payload to quinn "
               "unchanged and a 1:1 error mapping; every subtraction involved is an arithmetic obligation discharged by a guard or a structural "
               "lemma (suffix / prefix-sum), re-checked on every run; session filter in Driver::receive_datagram; no mutation path (private fields)."
               ' Also: VarInt::size() induces exactly the RFC 9000 partition of the value range (the header size the contract subtracts is the size the encoder writes).')
NOT_DECIDED = ["loss / reordering / duplication behaviour of QUIC datagrams (quinn)", "quinn's own max_datagram_size contract"]
TRUSTED = ["rustc MIR incl. overflow assertions (debug profile)", "bytes::Bytes slicing", "quinn::Connection::{max_datagram_size,send_datagram}"]


def run(ctx):
    A = ctx.A
    ctx.rule("C03-R1", "framing agreement: writer [varint qid, payload], size = header(qid)+len, reader [varint] + rest; driver offsets")
    f = A.fn("wtransport_proto::datagram::Datagram::write")
    BW = r"BufferWriter::new\(buffer\)"
    rows = [
        {"name": "too small->untouched", "atoms": [r"^<impl \[T\]>::len\(buffer\) < Datagram::write_size\(self\)$"], "not_events": [r"put_"], "leaf": r"^return Result::Err\(EndOfBuffer\)$"},
        {"name": "fits->[varint qid, bytes payload]", "atoms": [r"^<impl \[T\]>::len\(buffer\) >= Datagram::write_size\(self\)$"],
         "events": [r"^<BufferWriter as BytesWriter>::put_varint\(%s,QStreamId::into_varint\(self\.qstream_id\)\)$" % BW, r"^<BufferWriter as BytesWriter>::put_bytes\(%s,self\.payload\)$" % BW],
         "leaf": r"^return Result::Ok\(BufferWriter::offset\(%s\)\)$" % BW},
    ]
    ps = walk(f)
    match_table(ctx, "C03-R1", f, ps, rows, "proto Datagram::write")
    okp = [p for p in nonpanic(ps) if path_sig(p)[1].startswith("return Result::Ok")]
    seq = [e.split("(")[0] for p in okp for e in event_strs(p) if "BytesWriter>::put_" in e and not e.startswith("Result::")]
    ctx.check("C03-R1", "write order", seq == ["<BufferWriter as BytesWriter>::put_varint", "<BufferWriter as BytesWriter>::put_bytes"], "Datagram::write does not emit exactly [varint, bytes]: %s" % seq, where(f))
    f = A.fn("wtransport_proto::datagram::Datagram::write_size")
    ls = [path_sig(p)[1] for p in nonpanic(walk(f))]
    ctx.check("C03-R1", "write_size", ls == ["return AddWithOverflow(Datagram::header_size(self.qstream_id),<impl [T]>::len(self.payload)).0"], "write_size != header_size(qid) + payload.len(): %s" % ls, where(f))
    f = A.fn("wtransport_proto::datagram::Datagram::header_size")
    ls = [path_sig(p)[1] for p in nonpanic(walk(f))]
    ctx.check("C03-R1", "header_size", ls == ["return VarInt::size(QStreamId::into_varint(qstream_id))"], "header_size != varint size of the quarter stream id: %s" % ls, where(f))
    f = A.fn("wtransport_proto::datagram::Datagram::read")
    BR = r"BufferReader::new\(quic_datagram\)"
    GV = r"<BufferReader as BytesReader>::get_varint\(%s\)" % BR
    rows = [
        {"name": "empty->error", "atoms": [r"^%s fails$" % GV], "leaf": r"^return Result::Err\(ErrorCode::Datagram\)$"},
        {"name": "qid too large->error", "atoms": [r"^QStreamId::try_from_varint\(ok\(%s\)\) fails$" % GV], "leaf": r"^return Result::Err\(ErrorCode::Datagram\)$"},
        {"name": "ok->(qid, rest of the buffer)", "atoms": [r"^QStreamId::try_from_varint\(ok\(%s\)\) ok$" % GV],
         "leaf": r"^return Result::Ok\(datagram::Datagram\(ok\(QStreamId::try_from_varint\(ok\(%s\)\)\),BufferReader::buffer_remaining\(%s\)\)\)$" % (GV, BR)},
    ]
    match_table(ctx, "C03-R1", f, walk(f), rows, "proto Datagram::read")
    f = A.fn("wtransport_proto::bytes::BufferReader::buffer_remaining")
    ls = [path_sig(p)[1] for p in nonpanic(walk(f))]
    ctx.check("C03-R1", "buffer_remaining is a suffix of the buffer", ls == ["return BufferReader::buffer(self)[BufferReader::offset(self)..]"],
              "BufferReader::buffer_remaining is not `&buffer()[offset()..]`: %s" % ls, where(f))
    shared.driver_datagram_tables(ctx, "C03-R1")

    ctx.rule("C03-R2", "quarter stream id conversion: write uses from_session_id (>>2), read uses into_session_id (<<2), header size from the quarter id")
    f = A.fn_opt("wtransport::datagram::Datagram::header_size")
    if f is not None:  # the helper may be inlined away; the normal-form rule of C03-R3 does not depend on it
        ls = [path_sig(p)[1] for p in nonpanic(walk(f))]
        ctx.check("C03-R2", "driver header_size", ls == ["return Datagram::header_size(QStreamId::from_session_id(session_id))"], "driver Datagram::header_size is not proto header_size(QStreamId::from_session_id(session_id)): %s" % ls, where(f))
    shared.qstream_algebra(ctx, "C03-R2")
    shared.varint_size_table(ctx, "C03-R2")   # header size == bytes the varint encoder writes

    ctx.rule("C03-R3", "size contract: max = quinn_max - header(session); send hands header++payload unchanged to quinn; 1:1 error mapping")
    # normal form: every local helper is looked through down to the id algebra (VarInt / QStreamId / SessionId) and quinn, closures are
    # applied to what they capture, so the rule states *what* is subtracted, not through which helpers
    STOP = re.compile(r"^wtransport_proto::(varint::VarInt|ids::(QStreamId|SessionId|StreamId))::|^quinn|^<wtransport_proto::bytes::BufferWriter")
    HDR = "VarInt::size(QStreamId::into_varint(QStreamId::from_session_id(%s)))"
    f = A.fn("wtransport::connection::Connection::max_datagram_size")
    QM = "Connection::max_datagram_size(self.quic_connection)"
    forms = []
    for p in nonpanic(walk(f, inline=STOP)):
        applied = False
        for e in p.events:
            if e[0] == "call" and re.search(r"Option::(and_then|map)$", e[1]) and canon(e[2][0]) == QM:
                qs = apply_closure(A, e[2][1], (("some", e[2][0]),), inline=STOP)
                if qs is None:
                    continue
                applied = True
                for q in nonpanic(qs):
                    forms.append((e[1].split("::")[-1], path_sig(q)[1]))
        if not applied:
            forms.append(("direct", path_sig(p)[1]))
    want = [("and_then", "return <impl usize>::checked_sub(ok(%s),%s)" % (QM, HDR % "self.session_id")),
            ("map", "return <impl usize>::saturating_sub(ok(%s),%s)" % (QM, HDR % "self.session_id"))]
    direct = {("direct", "return Option::None"), ("direct", "return <impl usize>::checked_sub(ok(%s),%s)" % (QM, HDR % "self.session_id"))}
    ctx.check("C03-R3", "max_datagram_size == quinn's max - size of the header that is written (varint of the quarter stream id)",
              (len(forms) == 1 and forms[0] in want) or set(forms) == direct,
              "Connection::max_datagram_size is not `quinn_max.checked_sub(size(varint(quarter id of self.session_id)))`; normal form: %s" % forms, where(f),
              key="max_datagram_size normal form")
    f = A.fn("wtransport::driver::Driver::send_datagram")
    SD = r"Connection::send_datagram\(self\.quic_connection,Datagram::into_quic_bytes\(Datagram::write\(session_id,payload\)\)\)"
    rows = [
        {"name": "Ok", "atoms": [r"^%s ok$" % SD], "leaf": r"^return Result::Ok\(\(\)\)$"},
        {"name": "TooLarge->TooLarge", "atoms": [r" is TooLarge$"], "leaf": r"^return Result::Err\(SendDatagramError::TooLarge\)$"},
        {"name": "UnsupportedByPeer->UnsupportedByPeer", "atoms": [r" is UnsupportedByPeer$"], "leaf": r"^return Result::Err\(SendDatagramError::UnsupportedByPeer\)$"},
        {"name": "ConnectionLost->NotConnected", "atoms": [r" is ConnectionLost$"], "leaf": r"^return Result::Err\(SendDatagramError::NotConnected\)$"},
    ]
    ps = walk(f)
    one = [p for p in nonpanic(ps)]
    mm = re.match(r"^return Result::map_err\(%s,fn:([\w:]+)\)$" % SD, path_sig(one[0])[1]) if len(one) == 1 else None
    helper = [g for g in A.fn_list if mm and g.body and re.sub(r"\b(?:[a-z_][a-z0-9_#]*::)+", "", g.path) == mm.group(1) and g.path.startswith("wtransport::driver::")]
    if mm and len(helper) == 1:
        # the error map was extracted into a private function: `x.map_err(helper)` — the Ok value is quinn's `()`, the rows are the helper's
        pn = helper[0].body["locals"][1].get("name") or "arg1"
        rows2 = [dict(r, atoms=[a.replace(" is ", "^%s is " % pn, 1) if a.startswith(" is ") else a for a in r["atoms"]], leaf=r["leaf"].replace("^return Result::Err\\(", "^return ").replace("\\)$", "$")) for r in rows[1:]]
        match_table(ctx, "C03-R3", helper[0], walk(helper[0]), rows2, "Driver::send_datagram")
    else:
        match_table(ctx, "C03-R3", f, ps, rows, "Driver::send_datagram")
    pan = [path_sig(p)[0][-1] for p in ps if p.leaf[0] == "panic"]
    ctx.check("C03-R3", "send_datagram panic arms", all(a.endswith(" is Disabled") for a in pan), "Driver::send_datagram panics on an arm other than `Disabled`: %s" % pan, where(f))
    ctx.assume("O1: quinn::SendDatagramError::Disabled is mapped to unreachable!(): reachable only when the *local* datagram_receive_buffer_size fails "
               "(custom transport config) — a local-configuration panic outside C03's quantifier over peer limits")
    f = A.fn("wtransport::connection::Connection::send_datagram")
    ls = [path_sig(p)[1] for p in nonpanic(walk(f))]
    ctx.check("C03-R3", "Connection::send_datagram delegates", len(ls) == 1 and re.match(r"^return Driver::send_datagram\(.*self\.driver.*,self\.session_id,.*payload", ls[0]) is not None,
              "Connection::send_datagram does not pass (self.session_id, payload) to the driver unchanged: %s" % ls, where(f))

    ctx.rule("C03-R4", "arithmetic safety: every subtraction on the datagram size path is discharged (guard or structural lemma)")
    n = 0
    for path, lemma in (("wtransport::connection::Connection::max_datagram_size::{closure#0}", None),
                        ("wtransport::datagram::Datagram::read", "suffix"), ("wtransport::datagram::Datagram::write", "prefix-sum"),
                        ("wtransport_proto::datagram::Datagram::write_size", "sum"), ("wtransport_proto::bytes::BufferReader::buffer_remaining", None)):
        fn = A.fn_opt(path)
        if fn is None and path.endswith("::{closure#0}"):
            fn = A.fn(path[:-len("::{closure#0}")])   # the closure was folded into its parent (`?` + straight-line code)
        elif fn is None:
            fn = A.fn(path)
        for o in obligations.collect(fn):
            if not o.kind.startswith("Overflow"):
                continue
            n += 1
            how = obligations.discharge(o)
            if how is None and lemma == "suffix" and o.kind == "Overflow(Sub)":
                # len(quic) - len(h3.payload()): payload is `buffer_remaining()` of a reader over the same bytes (checked in C03-R1)
                a, b = canon(o.ops[0]), canon(o.ops[1])
                if a == "Bytes::len(quic_dgram)" and b == "<impl [T]>::len(Datagram::payload(ok(Datagram::read(quic_dgram))))":
                    how = "lemma suffix: payload == buffer_remaining(reader over quic_dgram) (rows of proto Datagram::read and buffer_remaining checked in C03-R1)"
            if how is None and lemma == "prefix-sum" and o.kind == "Overflow(Sub)":
                a, b = canon(o.ops[0]), canon(o.ops[1])
                if "Datagram::write_size(" in a and b == "<impl [T]>::len(payload)":
                    how = "lemma prefix-sum: len(quic) == write_size == header_size + len(payload) (write_size checked in C03-R1)"
            if how is None and lemma == "sum" and o.kind == "Overflow(Add)":
                how = "lemma: header_size <= 8 and payload.len() <= isize::MAX (slice length) so the sum cannot overflow usize"
            ctx.check("C03-R4", o.key, how is not None,
                      "%s: `%s` can overflow: no dominating guard, interval proof or lemma (a peer-controlled quinn limit smaller than the header makes `quic_max - header` underflow)"
                      % (fn.path, o.text()), o.loc, detail=how)
            ctx.sample({"rule": "C03-R4", "obligation": o.text(), "fn": fn.path, "at": o.loc, "discharged_by": how})
    ctx.floor("C03-R4", "arithmetic obligations", n, 3)

    ctx.rule("C03-R5", "session filter: Driver::receive_datagram returns only datagrams of its own session, others are dropped")
    shared.driver_session_filters(ctx, "C03-R5", which=("receive_datagram",))
    f = A.find1(r"^wtransport::connection::Connection::receive_datagram::\{closure#0\}$")
    ls = [path_sig(p)[1] for p in nonpanic(walk(f))]
    ctx.check("C03-R5", "Connection::receive_datagram passes its session id", any("Driver::receive_datagram(" in e and "self.session_id" in e for p in nonpanic(walk(f)) for e in event_strs(p)),
              "Connection::receive_datagram does not filter by self.session_id", where(f))

    ctx.rule("C03-R6", "no mutation path: Datagram's fields are private and no method hands out &mut to them")
    adt = A.adt("wtransport::datagram::Datagram")
    for fl in adt["variants"][0]["fields"]:
        ctx.check("C03-R6", "field %s private" % fl["name"], fl["vis"] != "pub", "Datagram.%s is public" % fl["name"], adt["at"]["sp"])
    muts = [fn.path for fn in A.fn_list if fn.path.startswith("wtransport::datagram::Datagram::") and "mut " in fn.raw.get("sig", "").split("->")[-1]]
    derefmut = [i for i in A.impls if i.get("trait", "").endswith("DerefMut") and i["self"] == "wtransport::datagram::Datagram"]
    ctx.check("C03-R6", "no &mut accessor", not muts and not derefmut, "Datagram exposes mutable access: %s %s" % (muts, derefmut), adt["at"]["sp"])
    witness.run(ctx, "C03-R6", {"C03"})
