"""C07 — streams are independent: a stalled stream never blocks the others."""
import re
import corowit
from corowit import CoroIndex, ty_short, RESOURCES
from rules.C05 import short_chain
from rulelib import walk, nonpanic, path_sig, event_strs, where
from pathwalk import const_val

EXPLANATION = ("Coroutine-witness analysis of every task the driver spawns and of the worker loop: a unit of a bounded hand-off "
               "resource (mpsc permit, mutex guard, semaphore permit) must not be owned across a suspension whose awaited future is "
               "paced by one peer stream (a stream read); the worker's acceptor branches (accept_uni/accept_bi/accept_datagram) await no per-stream read at all. Also: the worker loop's only suspension is its select!, handlers are "
               "synchronous; Driver accept methods hold at most their own queue's guard; queue capacities are >= 1 and the queues "
               "are distinct channels."
               ' Also (C07-R7/R8): acceptor branches reserve the queue slots before pulling and own no pulled stream across a later await; C07-R9: the capacity of each per-direction hand-off queue (= how many stalled peer streams of that direction the worker tolerates while finding F2 stands) is not below the reference 4 uni / 1 bidi; an I/O fault (reset, lost) on one stalled stream is not re-labelled as an H3 error that closes the connection. C07-R10: Worker::run closes the QUIC connection on every termination cause (reference table), which is what releases the hand-off permits of tasks stalled in a preamble so that the accept calls can report the end of the session.')
NOT_DECIDED = ["liveness bounds", "quinn's stream scheduling and flow control"]
TRUSTED = ["rustc coroutine layout", "reviewed resource / leaf-future tables (engine/corowit.py)", "tokio mpsc permit semantics"]


def res_pred(did):
    return did in RESOURCES


def run(ctx):
    idx = CoroIndex(ctx.A)
    ctx.rule("C07-R1", "no bounded hand-off resource is held by a spawned per-stream task across a peer-paced stream read")
    spawns = [(fn, t, cor) for fn, t, cor in idx.spawn_sites() if fn.path.startswith("wtransport::")]
    ctx.floor("C07-R1", "spawn sites", len(spawns), 3)
    ntask = 0
    cands = {}
    for fn, t, cor in spawns:
        if cor is None or cor not in idx.coros:
            ctx.violation("C07-R1", "spawn@%s|unresolved" % short_chain([fn.path]), "cannot decide: spawned future type is not a local coroutine", fn.at)
            continue
        for d in idx.awaited_local(cor):
            cands.setdefault(d, "task spawned in " + short_chain([fn.path]))
    # the worker loop itself: every future polled by its select! (dropped / stalled together)
    wl = "wtransport::driver::worker::Worker::run_impl::{closure#0}"
    for d in idx.awaited_local(wl):
        if d != wl:
            cands.setdefault(d, "worker select-loop branch")
    for cor, origin in sorted(cands.items()):
        task = idx.coros[cor]
        ntask += 1
        tname = short_chain([cor])
        for s in task.susp:
            if s.is_select:
                continue
            held = s.held_types()
            res = []
            for name, ty in held:
                r = idx.contains(ty, res_pred)
                if r:
                    res.append((name, r))
            aw = s.awaitee
            peer = idx.classify(aw["ty_j"], "peer") if aw else [("unknown", ["no awaitee"])]
            hits = [c for k, c in peer if k == "hit"]
            unk = [c for k, c in peer if k == "unknown"]
            if res:
                ctx.sample({"rule": "C07-R1", "coroutine": tname, "origin": origin, "at": s.where, "holds": [(n, r.split("::")[-1]) for n, r in res],
                            "awaits": ty_short(aw["ty_j"]) if aw else None, "peer_paced_via": [short_chain(c)[-120:] for c in hits][:3]})
            if not res:
                ctx.ok("C07-R1", "%s|susp%d" % (tname, s.variant))
                continue
            if unk and not hits:
                ctx.violation("C07-R1", "%s|holds=%s|unclassified=%s" % (tname, res[0][1].split("::")[-1], short_chain(unk[0])),
                              "cannot decide: %s holds %s across an unclassified future" % (tname, res), s.where)
            if hits:
                callee = short_chain([aw["ty_j"].get("did", "?")])
                for name, r in res:
                    ctx.violation("C07-R1", "%s|holds=%s:%s|across=%s" % (tname, name, r.split("::")[-1], callee),
                                  "%s (%s) owns `%s` (%s: %s) while awaiting %s, which completes only when the peer sends on this one stream (%s)"
                                  % (tname, origin, name, r, RESOURCES[r], callee, short_chain(hits[0])), s.where)
            elif not unk:
                ctx.ok("C07-R1", "%s|susp%d" % (tname, s.variant))
    ctx.count("spawned_tasks", ntask)

    ctx.rule("C07-R2", "the worker loop's only suspension point is its select!; branch handlers never suspend")
    from rules import shared
    shared.worker_loop_never_parks(ctx, "C07-R2", idx)

    ctx.rule("C07-R7", "acceptor branches own no pulled stream across a later await (slots are reserved before the pull)")
    shared.acceptor_branches(ctx, "C07-R7", idx)
    shared.permit_before_pull(ctx, "C07-R7")

    ctx.rule("C07-R8", "an I/O fault on one stalled stream (reset, lost) is not re-labelled as a protocol error that closes the connection")
    from rules.C05 import eof_rules
    eof_rules(ctx, "C07-R8")
    shared.uni_upgrade_maps(ctx, "C07-R8")

    ctx.rule("C07-R5", "the worker's acceptor branches wait only for the acceptor: every per-stream read happens in a spawned task")
    for name in ("accept_uni", "accept_bi", "accept_datagram"):
        c = idx.find1(r"^wtransport::driver::worker::Worker::%s::\{closure#0\}$" % name)
        res = idx.classify({"k": "cor", "did": c.path, "local": True}, "peer")
        hits = [x for k, x in res if k == "hit"]
        unk = [x for k, x in res if k == "unknown"]
        ctx.check("C07-R5", "Worker::%s awaits no stream read" % name, not hits,
                  "Worker::%s is polled by the worker's select loop and awaits %s: while one peer stream is silent or has sent only part of its "
                  "preamble, no further stream of that kind is accepted" % (name, short_chain(hits[0]) if hits else ""), c.fn.at,
                  key="Worker::%s awaits a peer-paced stream read" % name)
        ctx.check("C07-R5", "Worker::%s fully classified" % name, not unk,
                  "cannot decide: Worker::%s awaits an unclassified future %s" % (name, short_chain(unk[0]) if unk else ""), c.fn.at)

    ctx.rule("C07-R6", "the library never narrows QUIC flow control itself (shared credit is what couples streams)")
    from rules import shared
    shared.library_flow_control(ctx, "C07-R6")

    ctx.rule("C07-R3", "Driver accept methods hold at most the guard of their own queue across a suspension")
    n = 0
    for name in ("accept_settings", "accept_uni", "accept_bi", "receive_datagram", "accept_session", "register_session", "result"):
        c = idx.find1(r"^wtransport::driver::Driver::%s::\{closure#0\}$" % name)
        for s in c.susp:
            guards = []
            for nm, ty in s.held_types():
                r = idx.contains(ty, lambda d: d.endswith("MutexGuard"))
                if r:
                    guards.append(ty_short(ty))
            n += 1
            ctx.check("C07-R3", "Driver::%s|susp%d" % (name, s.variant), len(set(guards)) <= 1,
                      "Driver::%s holds several lock guards across one await: %s" % (name, guards), s.where)
    ctx.floor("C07-R3", "driver suspensions", n, 12)

    ctx.rule("C07-R4", "hand-off queue capacities are >= 1 and streams / datagrams / sessions / settings use distinct channels")
    f = ctx.A.fn("wtransport::driver::Driver::init")
    chans = []
    for p in nonpanic(walk(f))[:1]:
        for e in p.events:
            if e[0] == "call" and re.search(r"(mpsc::channel|mpsc::bounded::channel|utils::bichannel)$", e[1]):
                chans.append((e[1].split("::")[-1], const_val(e[2][0]) if e[2] else None))
    ctx.check("C07-R4", "Driver::init channels", len(chans) == 5 and all(isinstance(c, int) and c >= 1 for _, c in chans),
              "Driver::init does not create 5 bounded queues of capacity >= 1: %s" % chans, f.at)
    w2 = ctx.A.find1(r"^wtransport::driver::worker::Worker::run_impl::\{closure#0\}$")
    chans2 = []
    seen = set()
    for p in walk(w2):
        for e in p.events:
            if e[0] == "call" and re.search(r"mpsc::(bounded::)?channel$", e[1]) and e[3] not in seen:
                seen.add(e[3])
                chans2.append(const_val(e[2][0]) if e[2] else None)
        break
    ctx.check("C07-R4", "run_impl channels", len(chans2) == 2 and all(isinstance(c, int) and c >= 1 for c in chans2),
              "Worker::run_impl does not create its two H3 hand-off queues with capacity >= 1: %s" % chans2, w2.at)
    ctx.sample({"rule": "C07-R4", "Driver::init": chans, "run_impl": chans2})

    ctx.rule("C07-R9", "the number of stalled peer streams the acceptor tolerates (= capacity of the hand-off queue whose permit the per-stream task holds, finding F2) is not lowered")
    from rules.shared import SPEC
    ref = SPEC["handoff_queue_min_capacity"]
    nq = 0
    for fq, label in ((f, "Driver::init"), (w2, "Worker::run_impl")):
        seenq = set()
        for p in walk(fq):
            for e in p.events:
                if e[0] == "call" and re.search(r"mpsc::(bounded::)?channel$", e[1]) and e[3] not in seenq:
                    seenq.add(e[3])
                    ta = " ".join(e[5].get("targs") or [])
                    for role in ("UniRemote", "BiRemote"):
                        if ("types::%s," % role) in ta:
                            nq += 1
                            stage = "WT" if "types::WT" in ta else "H3"
                            cap = const_val(e[2][0]) if e[2] else None
                            ctx.check("C07-R9", "%s %s/%s hand-off queue capacity >= %d" % (label, role, stage, ref[role]), isinstance(cap, int) and cap >= ref[role],
                                      "%s creates the %s/%s hand-off queue with capacity %s: %s stalled stream(s) of that direction now stop the worker from accepting (reference: %d)" % (label, role, stage, cap, cap, ref[role]),
                                      e[4], key="handoff capacity|%s|%s/%s" % (label, role, stage))
            break
    ctx.floor("C07-R9", "per-direction hand-off queues", nq, 4)

    ctx.rule("C07-R10", "the session closes cleanly whatever is stalled: when the session ends the worker closes the QUIC connection, which aborts the per-stream tasks still holding hand-off permits (queue senders)")
    shared.worker_run_table(ctx, "C07-R10")
