"""C02 — session setup carries the request faithfully and mirrors the decision."""
import re
from rules import shared
from rules.shared import SPEC
from rulelib import walk, match_table, nonpanic, path_sig, event_strs, where, depth_limit, canon, call_sites, const_int

EXPLANATION = ("(1) QPACK static table == RFC 9204 Appendix A (99 rows, one shared definition); (2) encoder and decoder agree on the field-line "
               "representations, prefix widths, T bits and H flag; (3) pipeline shape: connect builds the request from the URL, every additional "
               "header passes through SessionRequest::insert (reserved-name guard), the frame written is request().headers().generate_frame(); "
               "server side Headers::with_frame(first frame) -> SessionRequest::try_from -> into_session -> ready_sessions, nothing dropped or "
               "rewritten in between; (4) decision mirror: Ok(Connection) only on code().is_successful(), SessionRejected on its complement, "
               "accept starts from SessionResponse::ok(), refusals use 403/404/429; (5) both Connection::new sites receive "
               "stream_session.session_id() (= id of the CONNECT stream); (6) SessionRequest::new builds exactly the five pseudo-headers with "
               ":authority == url.authority() and :path == url.path() ++ ('?' ++ query)? (string algebra, any spelling), and Headers::insert / get store and "
               "look up names and values unchanged."
               ' Also: StaticTable::lookup_index compares names and values by exact equality only (an indexed field line is value-preserving); the request stream is never dropped with a cancelled worker branch (C02-R7). C02-R8: the HEADERS frame is put on the wire whole whatever credit the peer grants: every write_frame layer awaits the layer below on the given frame, Frame::write_async emits [kind, len, payload] through PutVarint/PutBuffer, whose poll loops re-issue poll_write on the unwritten rest until the field is complete.')
NOT_DECIDED = ["decode(encode(h)) == h for arbitrary strings (Huffman coder is an external crate; value-level law)", "URL parsing (url crate)"]
TRUSTED = ["rustc MIR / const evaluation", "spec/qpack_static.json", "url::Url accessors"]


def run(ctx):
    A = ctx.A
    ctx.rule("C02-R1", "QPACK static table == RFC 9204 Appendix A")
    shared.qpack_static_table(ctx, "C02-R1")
    ctx.rule("C02-R2", "encoder / decoder representation agreement")
    shared.qpack_representations(ctx, "C02-R2")
    shared.prefix_integer_constants(ctx, "C02-R2")

    ctx.rule("C02-R3", "request pipeline shape (client and server)")
    fn = A.fn("wtransport::endpoint::Endpoint::connect::{closure#0}")
    with depth_limit(7):
        paths = nonpanic(walk(fn))
        okp = [p for p in paths if path_sig(p)[1].startswith("return Result::Ok(Connection::new(")]
        evs = [event_strs(p) for p in okp]
    ctx.check("C02-R3", "connect: request built from the URL", bool(evs) and all(any(re.match(r"^SessionRequest::new\(", e) for e in ev) for ev in evs),
              "Endpoint::connect does not build the request with SessionRequest::new(url)", where(fn))
    ctx.check("C02-R3", "connect: frame written = request().headers().generate_frame()", bool(evs) and all(any(re.search(r"::write_frame\(.*,Headers::generate_frame\(SessionRequest::headers\(<impl .*>::request\(", e) for e in ev) for ev in evs),
              "Endpoint::connect does not write stream_session.request().headers().generate_frame()", where(fn))
    with depth_limit(5):
        loops = [p for p in walk(fn) if p.leaf[0] == "loop" and path_sig(p)[0] and path_sig(p)[0][-1].startswith("SessionRequest::insert(")]
        ins = [[e for e in event_strs(p) if e.startswith("SessionRequest::insert(")] for p in loops]
    ctx.check("C02-R3", "connect: additional headers via SessionRequest::insert", bool(loops) and all(len(i) == 1 for i in ins), "additional headers are not inserted through SessionRequest::insert (reserved-name guard): %s" % ins, where(fn))
    body_calls = {t["f"].get("path") for bb in fn.body["blocks"] for t in [bb["t"]] if t["k"] == "call"}
    mut = {c for c in body_calls if c and re.search(r"Headers::insert$|SessionResponse::add$", c)}
    ctx.check("C02-R3", "connect: no direct header mutation", not mut, "Endpoint::connect mutates headers directly: %s" % mut, where(fn))
    shared.handle_bi_table(ctx, "C02-R3")
    f = A.find1(r"^wtransport::driver::streams::biremote::<impl .*BiRemote, wtransport_proto::stream::types::H3>>>::into_session$")
    sg = [path_sig(p)[1] for p in nonpanic(walk(f))]
    ctx.check("C02-R3", "into_session keeps stream and request", sg == ["return streams::Stream(self.stream,<impl Stream<BiRemote, H3>>::into_session(self.proto,session_request))"], "driver into_session changed: %s" % sg, where(f))
    f = A.find1(r"^wtransport_proto::stream::biremote::<impl .*BiRemote, wtransport_proto::stream::types::H3>>::into_session$")
    sg = [path_sig(p)[1] for p in nonpanic(walk(f))]
    ctx.check("C02-R3", "proto into_session stores the request", sg == ["return stream::Stream(Bi,Session::new(session_request))"], "proto into_session changed: %s" % sg, where(f))
    f = A.fn("wtransport_proto::headers::Headers::with_frame")
    sg = sorted(path_sig(p)[1] for p in nonpanic(walk(f)))
    ctx.check("C02-R3", "Headers::with_frame = decode(payload)", any(re.match(r"^return Result::Ok\(Headers\(ok\(Decoder::decode\(Frame::payload\(frame\)\)\)\)\)$", l) for l in sg),
              "Headers::with_frame does not wrap Decoder::decode(frame.payload()) unchanged: %s" % sg, where(f))
    for acc, key in (("authority", ":authority"), ("path", ":path")):
        f = A.fn("wtransport_proto::session::SessionRequest::%s" % acc)
        sg = [path_sig(p)[1] for p in nonpanic(walk(f))]
        ctx.check("C02-R3", "SessionRequest::%s reads '%s'" % (acc, key), len(sg) == 1 and ("Headers::get(self.0,'%s')" % key) in sg[0], "SessionRequest::%s does not return the '%s' field: %s" % (acc, key, sg), where(f))
    f = A.fn("wtransport_proto::headers::Headers::get")
    sg = [path_sig(p)[1] for p in nonpanic(walk(f))]
    ctx.check("C02-R3", "Headers::get is a map lookup", len(sg) == 2 and any("HashMap" in x and "::get(" in x for x in sg), "Headers::get changed: %s" % sg, where(f))

    ctx.rule("C02-R6", "what the request is made of: (authority, path ++ ?query) from the URL, fields stored and looked up unchanged")
    shared.request_from_url(ctx, "C02-R6")
    shared.headers_store_identity(ctx, "C02-R6")

    ctx.rule("C02-R7", "the request stream is never dropped with a cancelled branch of the worker loop (its HEADERS frame is read in a task that owns it)")
    shared.acceptor_branches(ctx, "C02-R7")

    ctx.rule("C02-R4", "decision mirror")
    shared.connect_response_table(ctx, "C02-R4")
    f = A.find1(r"^wtransport::endpoint::SessionRequest::accept_impl::\{closure#0\}$")
    with depth_limit(6):
        ps = nonpanic(walk(f))
        okp = [p for p in ps if path_sig(p)[1].startswith("return Result::Ok(Connection::new(")]
        ev = [event_strs(p) for p in okp]
    ctx.check("C02-R4", "accept starts from SessionResponse::ok()", bool(ev) and all(any(e == "SessionResponse::ok()" for e in x) and any(re.match(r"^await SessionRequest::send_response\(self,SessionResponse::ok\(\)\)$", e) for e in x) for x in ev),
              "accept_impl does not send SessionResponse::ok(): %s" % [[e for e in x if "send_response" in e] for x in ev], where(f))
    ctx.check("C02-R4", "accept registers the session before returning", bool(ev) and all(any(re.match(r"^await Driver::register_session\(self\.driver,self\.stream_session\)$", e) for e in x) for x in ev), "accept_impl does not register the session stream", where(f))
    for nm, ctor in (("forbidden", "forbidden"), ("not_found", "not_found"), ("too_many_requests", "too_many_requests")):
        f = A.find1(r"^wtransport::endpoint::SessionRequest::%s::\{closure#0\}$" % nm)
        ev = [e for p in nonpanic(walk(f)) for e in event_strs(p)]
        ctx.check("C02-R4", "SessionRequest::%s" % nm, any(re.match(r"^await SessionRequest::reject\(self,SessionResponse::%s\(\)\)$" % ctor, e) for e in ev), "SessionRequest::%s does not reject with SessionResponse::%s(): %s" % (nm, ctor, ev), where(f))
        g = A.fn("wtransport_proto::session::SessionResponse::%s" % ctor)
        sg = [path_sig(p)[1] for p in nonpanic(walk(g))]
        ctx.check("C02-R4", "SessionResponse::%s" % ctor, len(sg) == 1 and re.match(r"^return SessionResponse::with_status_code\(StatusCode::%s=%d\)$" % (ctor.upper(), SPEC["status"][ctor]), sg[0]) is not None, "SessionResponse::%s is not with_status_code(%d): %s" % (ctor, SPEC["status"][ctor], sg), where(g))
    g = A.fn("wtransport_proto::session::SessionResponse::ok")
    sg = [path_sig(p)[1] for p in nonpanic(walk(g))]
    ctx.check("C02-R4", "SessionResponse::ok", sg == ["return SessionResponse::with_status_code(StatusCode::OK=200)"], "SessionResponse::ok is not 200: %s" % sg, where(g))
    f = A.find1(r"^wtransport::endpoint::SessionRequest::send_response::\{closure#0\}$")
    with depth_limit(6):
        ev = [e for p in nonpanic(walk(f)) for e in event_strs(p)]
    ctx.check("C02-R4", "send_response writes response.headers().generate_frame()", any(re.search(r"::write_frame\(self\.stream_session,Headers::generate_frame\(SessionResponse::headers\(response\)\)\)$", e) for e in ev), "send_response does not write the response headers frame: %s" % [e for e in ev if "write_frame" in e], where(f))

    ctx.rule("C02-R5", "both endpoints use the CONNECT stream's id as session id")
    sites = set()
    for fn2, p, ev, atoms in call_sites(A, r"connection::Connection::new$"):
        if p is None or fn2.path in sites:
            continue
        sites.add(fn2.path)
        with depth_limit(4):
            arg = canon(ev[2][2])
        ctx.check("C02-R5", "Connection::new@%s" % fn2.path.split("::")[-2], re.match(r"^<impl .*Session>>>::session_id\(", arg) is not None, "%s: session id argument is %s" % (fn2.path, arg[:100]), ev[4], key="Connection::new@%s" % fn2.path)
    ctx.floor("C02-R5", "Connection::new call sites", len(sites), 2)

    ctx.rule("C02-R8", "the request / response HEADERS frame reaches the wire whole at any flow-control credit: write_frame -> Frame::write_async -> [kind, len, payload] through the looping Put* primitives")
    shared.preamble_writers(ctx, "C02-R8")
    shared.poll_loops(ctx, "C02-R8")
    n = 0
    for g in A.fn_list:
        if not g.body or not re.search(r"wtransport_proto::stream::types::(Session|H3)>>>?::write_frame(_async)?::\{closure#0\}$", g.path):
            continue
        n += 1
        ps = nonpanic(walk(g))
        okp = [p for p in ps if re.match(r"^return (Result::Ok\(|await\()", path_sig(p)[1])]
        inner = r"Frame::write_async\(frame,writer\)" if g.path.startswith("wtransport_proto::") else r"<impl Stream<\w+, \w+>>::write_frame_async\(self\.proto,frame,self\.stream(\.0)?\)"
        ctx.check("C02-R8", "write_frame writes the given frame through the layer below", bool(okp) and all(any(re.match(r"^await %s$" % inner, e) for e in event_strs(p)) for p in okp),
                  "%s returns without awaiting %s on the caller's frame" % (g.path, inner), where(g), key="write_frame|%s" % re.sub(r"wtransport(_proto)?::", "", g.path))
    ctx.floor("C02-R8", "write_frame layers", n, 5)
