"""C02 — session setup carries the request faithfully and mirrors the decision."""
import re
from rules import shared
from rules.shared import SPEC
from rulelib import walk, match_table, nonpanic, path_sig, event_strs, where, depth_limit, canon, call_sites, const_int

EXPLANATION = ("(1) QPACK static table == RFC 9204 Appendix A (99 rows, one shared definition); (2) encoder and decoder agree on the field-line "
               "representations, prefix widths, T bits and H flag; (3) pipeline shape: connect builds the request from the URL, every additional "
               "header passes through SessionRequest::insert (reserved-name guard), the frame written is request().headers().generate_frame(); "
               "server side Headers::with_frame(first frame) -> SessionRequest::try_from -> into_session -> ready_sessions, nothing dropped or "
               "rewritten in between; (4) decision mirror: Ok(Connection) only on code().is_successful(), SessionRejected on its complement, "
               "accept starts from SessionResponse::ok(), refusals use 403/404/429; (5) both Connection::new sites receive "
               "stream_session.session_id() (= id of the CONNECT stream); (6) SessionRequest::new builds exactly the five pseudo-headers with "
               ":authority == url.authority() and :path == url.path() ++ ('?' ++ query)? (string algebra, any spelling), and Headers::insert / get store and "
               "look up names and values unchanged."
               ' Also: StaticTable::lookup_index compares names and values by exact equality only (an indexed field line is value-preserving); the request stream is never dropped with a cancelled worker branch (C02-R7). C02-R8: the HEADERS frame is put on the wire whole whatever credit the peer grants: every write_frame layer awaits the layer below on the given frame, Frame::write_async emits [kind, len, payload] through PutVarint/PutBuffer, whose poll loops re-issue poll_write on the unwritten rest until the field is complete. C02-R9: the accessors through which the server application reads the request (endpoint::SessionRequest::authority/path/origin/user_agent/headers -> stored proto request -> Headers::get) and the option builders through which the client is given url and fields (ConnectOptions / ConnectRequestBuilder / IntoConnectOptions, accept / accept_with_headers) forward unchanged. C02-R10/R11: the session hand-off channel is cross-wired (each endpoint\'s sender feeds the other\'s receiver); the server accept pipeline awaits SETTINGS, then the session stream, and wraps exactly that stream, connection and driver into the SessionRequest it hands out. C02-R12: for every host kind of the URL, connect hands quinn the host\'s own socket address and the host\'s own text (domain / v4 / v6 without URL brackets) as TLS server name.')
NOT_DECIDED = ["decode(encode(h)) == h for arbitrary strings (Huffman coder is an external crate; value-level law)", "URL parsing (url crate)"]
TRUSTED = ["rustc MIR / const evaluation", "spec/qpack_static.json", "url::Url accessors"]


def run(ctx):
    A = ctx.A
    ctx.rule("C02-R1", "QPACK static table == RFC 9204 Appendix A")
    shared.qpack_static_table(ctx, "C02-R1")
    ctx.rule("C02-R2", "encoder / decoder representation agreement")
    shared.qpack_representations(ctx, "C02-R2")
    shared.prefix_integer_constants(ctx, "C02-R2")

    ctx.rule("C02-R3", "request pipeline shape (client and server)")
    fn = A.fn("wtransport::endpoint::Endpoint::connect::{closure#0}")
    with depth_limit(7):
        paths = nonpanic(walk(fn))
        okp = [p for p in paths if path_sig(p)[1].startswith("return Result::Ok(Connection::new(")]
        evs = [event_strs(p) for p in okp]
    ctx.check("C02-R3", "connect: request built from the URL", bool(evs) and all(any(re.match(r"^SessionRequest::new\(", e) for e in ev) for ev in evs),
              "Endpoint::connect does not build the request with SessionRequest::new(url)", where(fn))
    ctx.check("C02-R3", "connect: frame written = request().headers().generate_frame()", bool(evs) and all(any(re.search(r"::write_frame\(.*,Headers::generate_frame\(SessionRequest::headers\(<impl .*>::request\(", e) for e in ev) for ev in evs),
              "Endpoint::connect does not write stream_session.request().headers().generate_frame()", where(fn))
    with depth_limit(5):
        loops = [p for p in walk(fn) if p.leaf[0] == "loop" and path_sig(p)[0] and path_sig(p)[0][-1].startswith("SessionRequest::insert(")]
        ins = [[e for e in event_strs(p) if e.startswith("SessionRequest::insert(")] for p in loops]
    ctx.check("C02-R3", "connect: additional headers via SessionRequest::insert", bool(loops) and all(len(i) == 1 for i in ins), "additional headers are not inserted through SessionRequest::insert (reserved-name guard): %s" % ins, where(fn))
    body_calls = {t["f"].get("path") for bb in fn.body["blocks"] for t in [bb["t"]] if t["k"] == "call"}
    mut = {c for c in body_calls if c and re.search(r"Headers::insert$|SessionResponse::add$", c)}
    ctx.check("C02-R3", "connect: no direct header mutation", not mut, "Endpoint::connect mutates headers directly: %s" % mut, where(fn))
    shared.handle_bi_table(ctx, "C02-R3")
    f = A.find1(r"^wtransport::driver::streams::biremote::<impl .*BiRemote, wtransport_proto::stream::types::H3>>>::into_session$")
    sg = [path_sig(p)[1] for p in nonpanic(walk(f))]
    ctx.check("C02-R3", "into_session keeps stream and request", sg == ["return streams::Stream(self.stream,<impl Stream<BiRemote, H3>>::into_session(self.proto,session_request))"], "driver into_session changed: %s" % sg, where(f))
    f = A.find1(r"^wtransport_proto::stream::biremote::<impl .*BiRemote, wtransport_proto::stream::types::H3>>::into_session$")
    sg = [path_sig(p)[1] for p in nonpanic(walk(f))]
    ctx.check("C02-R3", "proto into_session stores the request", sg == ["return stream::Stream(Bi,Session(session_request))"], "proto into_session changed: %s" % sg, where(f))
    f = A.fn("wtransport_proto::headers::Headers::with_frame")
    sg = sorted(path_sig(p)[1] for p in nonpanic(walk(f)))
    ctx.check("C02-R3", "Headers::with_frame = decode(payload)", any(re.match(r"^return Result::Ok\(Headers\(ok\(Decoder::decode\(Frame::payload\(frame\)\)\)\)\)$", l) for l in sg),
              "Headers::with_frame does not wrap Decoder::decode(frame.payload()) unchanged: %s" % sg, where(f))
    for acc, key in (("authority", ":authority"), ("path", ":path")):
        f = A.fn("wtransport_proto::session::SessionRequest::%s" % acc)
        sg = [path_sig(p)[1] for p in nonpanic(walk(f))]
        ctx.check("C02-R3", "SessionRequest::%s reads '%s'" % (acc, key), len(sg) == 1 and ("Headers::get(self.0,'%s')" % key) in sg[0], "SessionRequest::%s does not return the '%s' field: %s" % (acc, key, sg), where(f))
    f = A.fn("wtransport_proto::headers::Headers::get")
    sg = [path_sig(p)[1] for p in nonpanic(walk(f))]
    ctx.check("C02-R3", "Headers::get is a map lookup", len(sg) == 2 and any("HashMap" in x and "::get(" in x for x in sg), "Headers::get changed: %s" % sg, where(f))

    ctx.rule("C02-R6", "what the request is made of: (authority, path ++ ?query) from the URL, fields stored and looked up unchanged")
    shared.request_from_url(ctx, "C02-R6")
    shared.headers_store_identity(ctx, "C02-R6")

    ctx.rule("C02-R7", "the request stream is never dropped with a cancelled branch of the worker loop (its HEADERS frame is read in a task that owns it)")
    shared.acceptor_branches(ctx, "C02-R7")

    ctx.rule("C02-R4", "decision mirror")
    shared.connect_response_table(ctx, "C02-R4")
    f = A.find1(r"^wtransport::endpoint::SessionRequest::accept_impl::\{closure#0\}$")
    with depth_limit(6):
        ps = nonpanic(walk(f))
        okp = [p for p in ps if path_sig(p)[1].startswith("return Result::Ok(Connection::new(")]
        ev = [event_strs(p) for p in okp]
    ctx.check("C02-R4", "accept starts from SessionResponse::ok()", bool(ev) and all(any(e == "SessionResponse::ok()" for e in x) and any(re.match(r"^await SessionRequest::send_response\(self,SessionResponse::ok\(\)\)$", e) for e in x) for x in ev),
              "accept_impl does not send SessionResponse::ok(): %s" % [[e for e in x if "send_response" in e] for x in ev], where(f))
    ctx.check("C02-R4", "accept registers the session before returning", bool(ev) and all(any(re.match(r"^await Driver::register_session\(self\.driver,self\.stream_session\)$", e) for e in x) for x in ev), "accept_impl does not register the session stream", where(f))
    for nm, ctor in (("forbidden", "forbidden"), ("not_found", "not_found"), ("too_many_requests", "too_many_requests")):
        f = A.find1(r"^wtransport::endpoint::SessionRequest::%s::\{closure#0\}$" % nm)
        ev = [e for p in nonpanic(walk(f)) for e in event_strs(p)]
        ctx.check("C02-R4", "SessionRequest::%s" % nm, any(re.match(r"^await SessionRequest::reject\(self,SessionResponse::%s\(\)\)$" % ctor, e) for e in ev), "SessionRequest::%s does not reject with SessionResponse::%s(): %s" % (nm, ctor, ev), where(f))
        g = A.fn("wtransport_proto::session::SessionResponse::%s" % ctor)
        sg = [path_sig(p)[1] for p in nonpanic(walk(g))]
        ctx.check("C02-R4", "SessionResponse::%s" % ctor, len(sg) == 1 and re.match(r"^return SessionResponse::with_status_code\(StatusCode::%s=%d\)$" % (ctor.upper(), SPEC["status"][ctor]), sg[0]) is not None, "SessionResponse::%s is not with_status_code(%d): %s" % (ctor, SPEC["status"][ctor], sg), where(g))
    g = A.fn("wtransport_proto::session::SessionResponse::ok")
    sg = [path_sig(p)[1] for p in nonpanic(walk(g))]
    ctx.check("C02-R4", "SessionResponse::ok", sg == ["return SessionResponse::with_status_code(StatusCode::OK=200)"], "SessionResponse::ok is not 200: %s" % sg, where(g))
    f = A.find1(r"^wtransport::endpoint::SessionRequest::send_response::\{closure#0\}$")
    with depth_limit(6):
        ev = [e for p in nonpanic(walk(f)) for e in event_strs(p)]
    ctx.check("C02-R4", "send_response writes response.headers().generate_frame()", any(re.search(r"::write_frame\(self\.stream_session,Headers::generate_frame\(SessionResponse::headers\(response\)\)\)$", e) for e in ev), "send_response does not write the response headers frame: %s" % [e for e in ev if "write_frame" in e], where(f))

    ctx.rule("C02-R5", "both endpoints use the CONNECT stream's id as session id")
    sites = set()
    for fn2, p, ev, atoms in call_sites(A, r"connection::Connection::new$"):
        if p is None or fn2.path in sites:
            continue
        sites.add(fn2.path)
        with depth_limit(4):
            arg = canon(ev[2][2])
        ctx.check("C02-R5", "Connection::new@%s" % fn2.path.split("::")[-2], re.match(r"^<impl .*Session>>>::session_id\(", arg) is not None, "%s: session id argument is %s" % (fn2.path, arg[:100]), ev[4], key="Connection::new@%s" % fn2.path)
    ctx.floor("C02-R5", "Connection::new call sites", len(sites), 2)

    ctx.rule("C02-R8", "the request / response HEADERS frame reaches the wire whole at any flow-control credit: write_frame -> Frame::write_async -> [kind, len, payload] through the looping Put* primitives")
    shared.preamble_writers(ctx, "C02-R8")
    shared.poll_loops(ctx, "C02-R8")
    n = 0
    for g in A.fn_list:
        if not g.body or not re.search(r"wtransport_proto::stream::types::(Session|H3)>>>?::write_frame(_async)?::\{closure#0\}$", g.path):
            continue
        n += 1
        ps = nonpanic(walk(g))
        okp = [p for p in ps if re.match(r"^return (Result::Ok\(|await\()", path_sig(p)[1])]
        inner = r"Frame::write_async\(frame,writer\)" if g.path.startswith("wtransport_proto::") else r"<impl Stream<\w+, \w+>>::write_frame_async\(self\.proto,frame,self\.stream(\.0)?\)"
        ctx.check("C02-R8", "write_frame writes the given frame through the layer below", bool(okp) and all(any(re.match(r"^await %s$" % inner, e) for e in event_strs(p)) for p in okp),
                  "%s returns without awaiting %s on the caller's frame" % (g.path, inner), where(g), key="write_frame|%s" % re.sub(r"wtransport(_proto)?::", "", g.path))
    ctx.floor("C02-R8", "write_frame layers", n, 5)

    ctx.rule("C02-R9", "the server application reads the request that was decoded, the client sends the options it was given: accessors and option builders forward unchanged")
    REQ = r"<impl Stream<\(QuicSendStream, QuicRecvStream\), Stream<Bi, Session>>>::request\(self\.stream_session\)"
    table = {
        r"^wtransport::endpoint::SessionRequest::authority$": (r"^return SessionRequest::authority\(%s\)$" % REQ, []),
        r"^wtransport::endpoint::SessionRequest::path$": (r"^return SessionRequest::path\(%s\)$" % REQ, []),
        r"^wtransport::endpoint::SessionRequest::origin$": (r"^return SessionRequest::origin\(%s\)$" % REQ, []),
        r"^wtransport::endpoint::SessionRequest::user_agent$": (r"^return SessionRequest::user_agent\(%s\)$" % REQ, []),
        r"^wtransport::endpoint::SessionRequest::headers$": (r"^return (<Headers as AsRef<HashMap<String, String>>>::as_ref\()?SessionRequest::headers\(%s\)\)?$" % REQ, []),
        r"^wtransport::driver::streams::session::<impl .*types::Session>>>::request$": (r"^return <impl Stream<Bi, Session>>::request\(self\.proto\)$", []),
        r"^wtransport_proto::stream::session::<impl .*types::Session>>::request$": (r"^return Session::request\(self\.stage\)$", []),
        r"^wtransport_proto::stream::types::Session::request$": (r"^return self\.session_request$", []),
        r"^wtransport_proto::stream::types::Session::new$": (r"^return Session\(session_request\)$", []),
        r"^wtransport_proto::session::SessionRequest::origin$": (r"^return Headers::get\(self\.0,'origin'\)$", []),
        r"^wtransport_proto::session::SessionRequest::user_agent$": (r"^return Headers::get\(self\.0,'user-agent'\)$", []),
        r"^wtransport_proto::session::SessionRequest::get$": (r"^return Headers::get\(self\.0,key\)$", []),
        r"^wtransport_proto::session::SessionRequest::headers$": (r"^return self\.0$", []),
        r"^wtransport_proto::session::SessionResponse::headers$": (r"^return self\.0$", []),
        r"^wtransport_proto::session::SessionResponse::add$": (r"^return \(\)$", [r"^Headers::insert\(self\.0,key,value\)$"]),
        r"^wtransport::endpoint::ConnectOptions::builder$": (r"^return ConnectRequestBuilder\(ToString::to_string\(url\),(<HashMap<K, V, S> as Default>::default|HashMap::new)\(\)\)$", []),
        r"^wtransport::endpoint::ConnectOptions::url$": (r"^return self\.url$", []),
        r"^wtransport::endpoint::ConnectOptions::additional_headers$": (r"^return self\.additional_headers$", []),
        r"^wtransport::endpoint::ConnectRequestBuilder::add_header$": (r"^return self$", [r"^HashMap::insert\(self\.additional_headers,ToString::to_string\(key\),ToString::to_string\(value\)\)$"]),
        r"^wtransport::endpoint::ConnectRequestBuilder::build$": (r"^return ConnectOptions\(self\.url,self\.additional_headers\)$", []),
        r"^<wtransport::endpoint::ConnectRequestBuilder as wtransport::endpoint::IntoConnectOptions>::into_options$": (r"^return ConnectRequestBuilder::build\(self\)$", []),
        r"^<wtransport::endpoint::ConnectOptions as wtransport::endpoint::IntoConnectOptions>::into_options$": (r"^return self$", []),
        r"^<S as wtransport::endpoint::IntoConnectOptions>::into_options$": (r"^return ConnectRequestBuilder::build\(ConnectOptions::builder\(self\)\)$", []),
        r"^wtransport::endpoint::SessionRequest::accept::\{closure#0\}$": (r"^return await\(SessionRequest::accept_impl\(self,HashMap::new\(\)\)\)$", []),
        r"^wtransport::endpoint::SessionRequest::accept_with_headers::\{closure#0\}$": (r"^return await\(SessionRequest::accept_impl\(self,Iterator::collect\(Iterator::map\(IntoIterator::into_iter\(headers\),closure:[^()]*\)\)\)\)$", []),
        r"^wtransport::endpoint::SessionRequest::accept_with_headers::\{closure#0\}::\{closure#0\}$": (r"^return \(Into::into\(arg2\.0\),Into::into\(arg2\.1\)\)$", []),
    }
    nfw = shared.forwarders(ctx, "C02-R9", table, "request/options")
    ctx.floor("C02-R9", "request / options forwarders", nfw, 26)
    # the client takes url and additional headers from the options it was given
    fn = A.fn("wtransport::endpoint::Endpoint::connect::{closure#0}")
    with depth_limit(16):
        evs2 = [e for p in nonpanic(walk(fn)) for e in event_strs(p) if e.startswith("SessionRequest::new(") or "additional_headers" in e]
    ctx.check("C02-R9", "connect: the request URL is the options' url", any(re.match(r"^SessionRequest::new\(ok\(Url::parse\(IntoConnectOptions::into_options\(options\)\.url\)\)\)$", e) for e in evs2),
              "Endpoint::connect does not build the request from Url::parse(options.url): %s" % sorted({e[:120] for e in evs2 if e.startswith("SessionRequest::new(")}), where(fn))
    ctx.check("C02-R9", "connect: additional headers are the options' additional_headers", any(re.search(r"::into_iter\(IntoConnectOptions::into_options\(options\)\.additional_headers\)", e) for e in evs2),
              "Endpoint::connect does not iterate options.additional_headers", where(fn))

    ctx.rule("C02-R10", "the session hand-off channel between driver and application is cross-wired: what one endpoint sends the *other* receives")
    fn = A.fn("wtransport::driver::utils::bichannel")
    lf = [canon(p.leaf[1], keep_sites=True) for p in nonpanic(walk(fn)) if p.leaf[0] == "return"]
    m = re.match(r"^\(BiChannelEndpoint\(channel\(capacity\)@(\d+)\.0,Mutex::new\(channel\(capacity\)@(\d+)\.1\)@\d+\),BiChannelEndpoint\(channel\(capacity\)@(\d+)\.0,Mutex::new\(channel\(capacity\)@(\d+)\.1\)@\d+\)\)$", lf[0]) if len(lf) == 1 else None
    ctx.check("C02-R10", "bichannel cross-wires two channels", m is not None and m.group(1) != m.group(2) and m.group(1) == m.group(4) and m.group(2) == m.group(3),
              "bichannel does not pair the sender of each channel with the receiver of the other: %s" % lf, where(fn))
    table = {
        r"^wtransport::driver::utils::BiChannelEndpoint::send::\{closure#0\}$": (r"^return Result::map_err\(await\(Sender::send\(self\.sender,value\)\),closure:[^()]*\)$", []),
        r"^wtransport::driver::utils::BiChannelEndpoint::recv::\{closure#0\}$": (r"^return await\(Receiver::recv\(await\(Mutex::lock\(self\.receiver\)\)\)\)$", []),
    }
    shared.forwarders(ctx, "C02-R10", table, "bichannel")
    fn = A.fn("wtransport::driver::utils::BiChannelEndpoint::try_send")
    TS = "Sender::try_send(self.sender,value)"
    sg = sorted(path_sig(p) for p in nonpanic(walk(fn)))
    okm = [l for _, l in sg] == ["return Result::map_err(%s,closure:BiChannelEndpoint::{closure#0})" % TS]   # the closure keeps Full / Closed and the value (below)
    okx = sorted(l for _, l in sg) == sorted(["return Result::Ok(())", "return Result::Err(TrySendError::Full((err(%s) as Full).0))" % TS, "return Result::Err(TrySendError::Closed((err(%s) as Closed).0))" % TS])
    ctx.check("C02-R10", "bichannel|BiChannelEndpoint::try_send", okm or okx, "BiChannelEndpoint::try_send does not forward to the sender's try_send keeping Full / Closed and the value: %s" % sg, where(fn))
    if okm:
        cl = A.fn("wtransport::driver::utils::BiChannelEndpoint::try_send::{closure#0}")
        sgc = sorted(path_sig(p) for p in nonpanic(walk(cl)))
        ctx.check("C02-R10", "bichannel|try_send error map", sgc == sorted([(("error is Full",), "return TrySendError::Full((error as Full).0)"), (("error is Closed",), "return TrySendError::Closed((error as Closed).0)")]),
                  "BiChannelEndpoint::try_send's error map does not keep Full / Closed and the value: %s" % sgc, where(cl))

    ctx.rule("C02-R11", "server accept pipeline: the SessionRequest handed to the application wraps the very session stream the driver accepted, on the same connection and driver")
    fn = A.find1(r"^wtransport::endpoint::IncomingSessionFuture::accept::\{closure#0\}$")
    DRV = r"Driver::init\(<Connection as Clone>::clone\(quic_connection\)\)"
    rows = [
        {"name": "settings, then session -> SessionRequest over the accepted stream", "atoms": [r"^await\(Driver::accept_settings\(%s\)\) ok$" % DRV, r"^await\(Driver::accept_session\(%s\)\) ok$" % DRV],
         "leaf": r"^return Result::Ok\(SessionRequest\(quic_connection,%s,ok\(await\(Driver::accept_session\(%s\)\)\)\)\)$" % (DRV, DRV)},
        {"name": "no session -> the driver's error", "atoms": [r"^await\(Driver::accept_session\(%s\)\) fails$" % DRV],
         "leaf": r"^return Result::Err\(ConnectionError::with_driver_error\(err\(await\(Driver::accept_session\(%s\)\)\),quic_connection\)\)$" % DRV},
        {"name": "no settings -> the driver's error", "atoms": [r"^await\(Driver::accept_settings\(%s\)\) fails$" % DRV],
         "leaf": r"^return Result::Err\(ConnectionError::with_driver_error\(err\(await\(Driver::accept_settings\(%s\)\)\),quic_connection\)\)$" % DRV},
    ]
    with depth_limit(14):
        match_table(ctx, "C02-R11", fn, walk(fn), rows, "IncomingSessionFuture::accept")
    table = {
        r"^wtransport::endpoint::SessionRequest::new$": (r"^return SessionRequest\(quic_connection,driver,stream_session\)$", []),
        r"^<wtransport::endpoint::IncomingSession as std::future::IntoFuture>::into_future$": (r"^return IncomingSessionFuture::new\(self\.0\)$", []),
        r"^wtransport::endpoint::IncomingSessionFuture::with_quic_incoming$": (r"^return IncomingSessionFuture::new\(quic_incoming\)$", []),
        r"^<wtransport::endpoint::IncomingSessionFuture as std::future::Future>::poll$": (r"^return Future::poll\(self\.0,cx\)$", []),
        r"^wtransport::endpoint::Endpoint::accept::\{closure#0\}$": (r"^return IncomingSession\(Option::expect\(await\(Endpoint::accept\(self\.endpoint\)\),'[^']*'\)\)$", []),
    }
    shared.forwarders(ctx, "C02-R11", table, "server accept")
    for nm, arg in (("new", "quic_incoming"), ("with_quic_connecting", "quic_connecting")):
        fn = A.find1(r"^wtransport::endpoint::IncomingSessionFuture::%s::\{closure#0\}$" % nm)
        sg = sorted(path_sig(p)[1] for p in nonpanic(walk(fn)))
        ctx.check("C02-R11", "IncomingSessionFuture::%s awaits the handshake, then accept()" % nm,
                  sg == sorted(["return await(IncomingSessionFuture::accept(ok(await(%s))))" % arg, "return Result::Err(err(await(%s)))" % arg]),
                  "IncomingSessionFuture::%s changed: %s" % (nm, sg), where(fn))

    ctx.rule("C02-R12", "connect reaches the URL's host for every host kind: (address, TLS server name) = (resolved, domain) / (v4:port, v4 text) / (v6:port, v6 text without URL brackets)")
    fn = A.fn("wtransport::endpoint::Endpoint::connect::{closure#0}")
    HOST = r"\(Option::expect\(Url::host\(.*?\),[^()]*\) as %s\)\.0"
    PORT = r"Option::unwrap_or\(Url::port\(.*?\),443\)"
    want = {
        "Domain": r"^Endpoint::connect\(self\.endpoint,ok\(ok\(await\(DnsResolver::resolve\(self\.side\.dns_resolver,.*\)\)\)\),<T as ToString>::to_string\(%s\)\)$" % (HOST % "Domain"),
        "Ipv4": r"^Endpoint::connect\(self\.endpoint,SocketAddr::V4\(SocketAddrV4::new\(%s,%s\)\),<T as ToString>::to_string\(%s\)\)$" % (HOST % "Ipv4", PORT, HOST % "Ipv4"),
        "Ipv6": r"^Endpoint::connect\(self\.endpoint,SocketAddr::V6\(SocketAddrV6::new\(%s,%s,0,0\)\),<T as ToString>::to_string\(%s\)\)$" % (HOST % "Ipv6", PORT, HOST % "Ipv6"),
    }
    got = {k: set() for k in want}
    with depth_limit(9):
        for p in walk(fn):
            hs = [re.search(r" is (Domain|Ipv4|Ipv6)$", a).group(1) for a in path_sig(p)[0] if re.search(r"Url::host\(.* is (Domain|Ipv4|Ipv6)$", a)]
            if not hs:
                continue
            for e in event_strs(p):
                if e.startswith("Endpoint::connect("):
                    got[hs[-1]].add(e)
    for k, rx in want.items():
        ctx.check("C02-R12", "connect target for a %s host" % k, len(got[k]) == 1 and re.match(rx, next(iter(got[k]))) is not None,
                  "Endpoint::connect does not hand quinn (socket address of the host, the host's own text as TLS server name) for a %s host: %s" % (k, sorted(x[:260] for x in got[k])), where(fn), key="connect target|%s" % k)
