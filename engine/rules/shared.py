"""Rule instances shared between properties (each caller passes its own rule id)."""
import json
import os
import re

from rulelib import (walk, match_table, path_sig, event_strs, canon, atom_str, leaf_str, where, depth_limit,
                     nonpanic, const_int)
from pathwalk import const_val, strip_refs
from mirlib import AnchorMissing

VERIF = os.path.dirname(os.path.dirname(os.path.dirname(os.path.abspath(__file__))))
SPEC = json.load(open(os.path.join(VERIF, "spec", "h3.json")))

P = "wtransport_proto::"
ROLES = {
    # role -> (module, kind type, stage type)
    "biremote": ("biremote", "BiRemote", "H3"),
    "bilocal": ("bilocal", "BiLocal", "H3"),
    "uniremote": ("uniremote", "UniRemote", "H3"),
    "session": ("session", "Bi", "Session"),
}


def proto_stream_fn(prog, role, name, closure=False):
    mod, kind, stage = ROLES[role]
    rx = r"^wtransport_proto::stream::%s::<impl wtransport_proto::stream::Stream<wtransport_proto::stream::types::%s, wtransport_proto::stream::types::%s>>::%s%s$" % (
        mod, kind, stage, name, r"::\{closure#0\}" if closure else "")
    return prog.find1(rx)


# ------------------------------------------------------------------ validate_frame tables

def validate_frame_tables(ctx, rid):
    """four `validate_frame` decision tables == RFC 9114 §7.2 / draft-webtrans admission table"""
    n = 0
    for role, spec in SPEC["validate_frame"].items():
        fn = proto_stream_fn(ctx.A, role, "validate_frame")
        rows = []
        for kind, out in spec.items():
            def leaf_for(o):
                if o == "ok":
                    return r"^return Result::Ok\(frame\)$"
                return r"^return Result::Err\(ErrorCode::%s\)$" % o
            if isinstance(out, dict):
                rows.append({"name": "%s/first" % kind, "atoms": [r"^Frame::kind\(frame\) is %s$" % kind, r"^!H3::set_first_frame\("],
                             "leaf": leaf_for(out["first"])})
                rows.append({"name": "%s/later" % kind, "atoms": [r"^Frame::kind\(frame\) is %s$" % kind, r"^H3::set_first_frame\("],
                             "leaf": leaf_for(out["later"])})
            else:
                rows.append({"name": kind, "atoms": [r"^Frame::kind\(frame\) is %s$" % kind], "leaf": leaf_for(out)})
        paths = walk(fn)
        match_table(ctx, rid, fn, paths, rows, "validate_frame[%s]" % role)
        ctx.sample({"rule": rid, "fn": fn.path, "table": [[list(path_sig(p)[0]), path_sig(p)[1]] for p in paths]})
        n += 1
    # the 'first frame' flag: set_first_frame returns the previous value and sets true
    f = ctx.A.fn("wtransport_proto::stream::types::H3::set_first_frame")
    ps = nonpanic(walk(f))
    okk = len(ps) == 1 and re.match(r"^return replace\(self\.first_frame_done,1\)$", leaf_str(ps[0].leaf)) is not None
    if not okk and len(ps) == 1:
        # the same thing spelled out: read the old value, store true, return the old value
        okk = leaf_str(ps[0].leaf) == "return self.first_frame_done" and [e for e in event_strs(ps[0]) if e.startswith("store ")] == ["store self.first_frame_done := 1"]
    ctx.check(rid, "H3::set_first_frame", okk,
              "H3::set_first_frame is no longer `mem::replace(mut self.first_frame_done, true)`: %s" % [leaf_str(p.leaf) for p in ps],
              where(f))
    ctx.floor(rid, "validate_frame tables", n, 4)


# ------------------------------------------------------------------ read_frame mappings

def _rf_rows_sync(selfref):
    return [
        {"name": "Ok(Some)->validated", "atoms": [r"^Frame::read\(bytes_reader\) ok$", r"^ok\(Frame::read\(bytes_reader\)\) ok$", r"validate_frame\(.*\) ok$"],
         "leaf": r"^return Result::Ok\(Option::Some\(ok\(<impl .*?>::validate_frame\(self,ok\(ok\(Frame::read\(bytes_reader\)\)\)\)\)\)\)$"},
        {"name": "Ok(Some)->validate error", "atoms": [r"validate_frame\(.*\) fails$"],
         "leaf": r"^return Result::Err\(err\(<impl .*?>::validate_frame\(self,ok\(ok\(Frame::read\(bytes_reader\)\)\)\)\)\)$"},
        {"name": "Ok(None)", "atoms": [r"^ok\(Frame::read\(bytes_reader\)\) fails$"], "leaf": r"^return Result::Ok\(Option::None\)$"},
        {"name": "UnknownFrame->skip", "atoms": [r"^err\(Frame::read\(bytes_reader\)\) is UnknownFrame$"], "leaf": r"^continue$"},
        {"name": "InvalidSessionId->Id", "atoms": [r"^err\(Frame::read\(bytes_reader\)\) is InvalidSessionId$"],
         "leaf": r"^return Result::Err\(ErrorCode::%s\)$" % SPEC["read_frame_map"]["InvalidSessionId"]},
        {"name": "PayloadTooBig->ExcessiveLoad", "atoms": [r"^err\(Frame::read\(bytes_reader\)\) is PayloadTooBig$"],
         "leaf": r"^return Result::Err\(ErrorCode::%s\)$" % SPEC["read_frame_map"]["PayloadTooBig"]},
    ]


def _rf_rows_async():
    R = r"await\(Frame::read_async\(reader\)\)"
    return [
        {"name": "Ok->validated", "atoms": [r"^%s ok$" % R],
         "leaf": r"^return Result::map_err\(<impl .*?>::validate_frame\(self,ok\(%s\)\),fn:IoReadError::H3\)$" % R},
        {"name": "UnknownFrame->skip", "atoms": [r"^\(err\(%s\) as Parse\)\.0 is UnknownFrame$" % R], "leaf": r"^continue$"},
        {"name": "InvalidSessionId->Id", "atoms": [r"^\(err\(%s\) as Parse\)\.0 is InvalidSessionId$" % R],
         "leaf": r"^return Result::Err\(stream::IoReadError::H3\(ErrorCode::%s\)\)$" % SPEC["read_frame_map"]["InvalidSessionId"]},
        {"name": "PayloadTooBig->ExcessiveLoad", "atoms": [r"^\(err\(%s\) as Parse\)\.0 is PayloadTooBig$" % R],
         "leaf": r"^return Result::Err\(stream::IoReadError::H3\(ErrorCode::%s\)\)$" % SPEC["read_frame_map"]["PayloadTooBig"]},
        {"name": "UnexpectedFin->Frame", "atoms": [r"^\(err\(%s\) as IO\)\.0 is UnexpectedFin$" % R],
         "leaf": r"^return Result::Err\(stream::IoReadError::H3\(ErrorCode::%s\)\)$" % SPEC["read_frame_map"]["UnexpectedFin"]},
        {"name": "other IO passthrough", "atoms": [r"^\(err\(%s\) as IO\)\.0 isnot UnexpectedFin$" % R],
         "leaf": r"^return Result::Err\(stream::IoReadError::IO\(\(err\(%s\) as IO\)\.0\)\)$" % R},
    ]


def read_frame_maps(ctx, rid):
    """eight read_frame / read_frame_async error mappings, sibling-equal and equal to the reference"""
    n = 0
    for role in ROLES:
        fs = proto_stream_fn(ctx.A, role, "read_frame")
        match_table(ctx, rid, fs, walk(fs), _rf_rows_sync(None), "read_frame[%s]" % role)
        n += 1
        fa = proto_stream_fn(ctx.A, role, "read_frame_async", closure=True)
        match_table(ctx, rid, fa, walk(fa), _rf_rows_async(), "read_frame_async[%s]" % role)
        n += 1
    ctx.floor(rid, "read_frame mappings", n, 8)


def from_buffer_commit(ctx, rid):
    """commit-or-drop: `commit()` is called exactly on the Some path (2 + 4 functions)"""
    n = 0
    targets = []
    for role in ROLES:
        targets.append((proto_stream_fn(ctx.A, role, "read_frame_from_buffer"), r"<impl .*?>::read_frame\(self,BufferReader::child\(buffer_reader\)\)", "read_frame_from_buffer[%s]" % role))
    targets.append((ctx.A.fn("wtransport_proto::frame::Frame::read_from_buffer"), r"Frame::read\(BufferReader::child\(buffer_reader\)\)", "Frame::read_from_buffer"))
    targets.append((ctx.A.fn("wtransport_proto::stream_header::StreamHeader::read_from_buffer"), r"StreamHeader::read\(BufferReader::child\(buffer_reader\)\)", "StreamHeader::read_from_buffer"))
    for fn, call, what in targets:
        rows = [
            {"name": "Some->commit", "atoms": [r"^%s ok$" % call, r"^ok\(%s\) ok$" % call],
             "events": [r"^BufferReaderChild::commit\(BufferReader::child\(buffer_reader\)\)$"],
             "leaf": r"^return Result::Ok\(Option::Some\(ok\(ok\(%s\)\)\)\)$" % call},
            {"name": "None->no commit", "atoms": [r"^ok\(%s\) fails$" % call], "not_events": [r"commit", r"BufferReader::skip"],
             "leaf": r"^return Result::Ok\(Option::None\)$"},
            {"name": "Err->no commit", "atoms": [r"^%s fails$" % call], "not_events": [r"commit", r"BufferReader::skip"],
             "leaf": r"^return Result::Err\(err\(%s\)\)$" % call},
        ]
        match_table(ctx, rid, fn, walk(fn), rows, what)
        n += 1
    # commit advances the parent by exactly the child's offset
    fc = ctx.A.fn("wtransport_proto::bytes::BufferReaderChild::commit")
    ps = nonpanic(walk(fc))
    evs = [e for p in ps for e in event_strs(p)]
    okk = any(re.match(r"^BufferReader::skip\(self\.parent,BufferReader::offset\(self\.reader\)\)$", e) for e in evs)
    ctx.check(rid, "BufferReaderChild::commit", okk,
              "BufferReaderChild::commit no longer does `parent.skip(child.offset())`: %s" % evs, where(fc))
    ctx.floor(rid, "commit-or-drop wrappers", n, 6)


def uni_upgrade_maps(ctx, rid):
    """uniremote upgrade / upgrade_async: unknown type -> StreamCreation, bad session id -> Id, FIN inside -> Frame"""
    m = SPEC["uni_upgrade_map"]
    mod, kind, _ = ROLES["uniremote"]
    base = r"^wtransport_proto::stream::uniremote::<impl wtransport_proto::stream::Stream<wtransport_proto::stream::types::UniRemote, wtransport_proto::stream::types::Quic>>::"
    fs = ctx.A.find1(base + r"upgrade$")
    S = r"StreamHeader::read\(bytes_reader\)"
    rows = [
        {"name": "None->stay Quic", "atoms": [r"^ok\(%s\) fails$" % S], "leaf": r"^return Result::Ok\(MaybeUpgradeH3::Quic\(self\)\)$"},
        {"name": "Some->H3", "atoms": [r"^ok\(%s\) ok$" % S],
         "leaf": r"^return Result::Ok\(MaybeUpgradeH3::H3\(stream::Stream\(self\.kind,H3::new\(Option::Some\(ok\(ok\(%s\)\)\)\)\)\)\)$" % S},
        {"name": "UnknownStream", "atoms": [r"^err\(%s\) is UnknownStream$" % S], "leaf": r"^return Result::Err\(ErrorCode::%s\)$" % m["UnknownStream"]},
        {"name": "InvalidSessionId", "atoms": [r"^err\(%s\) is InvalidSessionId$" % S], "leaf": r"^return Result::Err\(ErrorCode::%s\)$" % m["InvalidSessionId"]},
    ]
    match_table(ctx, rid, fs, walk(fs), rows, "uniremote::upgrade")
    fa = ctx.A.find1(base + r"upgrade_async::\{closure#0\}$")
    R = r"await\(StreamHeader::read_async\(reader\)\)"
    rows = [
        {"name": "Ok->H3", "atoms": [r"^%s ok$" % R],
         "leaf": r"^return Result::Ok\(stream::Stream\(self\.kind,H3::new\(Option::Some\(ok\(%s\)\)\)\)\)$" % R},
        {"name": "UnknownStream", "atoms": [r"^\(err\(%s\) as Parse\)\.0 is UnknownStream$" % R],
         "leaf": r"^return Result::Err\(stream::IoReadError::H3\(ErrorCode::%s\)\)$" % m["UnknownStream"]},
        {"name": "InvalidSessionId", "atoms": [r"^\(err\(%s\) as Parse\)\.0 is InvalidSessionId$" % R],
         "leaf": r"^return Result::Err\(stream::IoReadError::H3\(ErrorCode::%s\)\)$" % m["InvalidSessionId"]},
        {"name": "UnexpectedFin", "atoms": [r"^\(err\(%s\) as IO\)\.0 is UnexpectedFin$" % R],
         "leaf": r"^return Result::Err\(stream::IoReadError::H3\(ErrorCode::%s\)\)$" % m["UnexpectedFin"]},
        {"name": "other IO passthrough", "atoms": [r"^\(err\(%s\) as IO\)\.0 isnot UnexpectedFin$" % R],
         "leaf": r"^return Result::Err\(stream::IoReadError::IO\(\(err\(%s\) as IO\)\.0\)\)$" % R},
    ]
    match_table(ctx, rid, fa, walk(fa), rows, "uniremote::upgrade_async")


# ------------------------------------------------------------------ registries (R1)

def enum_const_table(ctx, fn, selfname="self"):
    """`match self { V => CONST }` -> {variant: (const name, int value)}; Exercise(id) => id is 'payload'"""
    out = {}
    for p in nonpanic(walk(fn)):
        v = None
        for a in p.atoms:
            if a[0] == "is":
                v = a[2]
        if p.leaf[0] != "return":
            continue
        val = const_val(p.leaf[1])
        out[v] = (canon(p.leaf[1]), val)
    return out


def registry_values(ctx, rid, which=("errors", "frames", "streams", "settings", "capsule", "alpn")):
    A = ctx.A
    if "errors" in which:
        fn = A.fn("wtransport_proto::error::ErrorCode::to_code")
        t = enum_const_table(ctx, fn)
        for name, val in SPEC["error_codes"].items():
            got = t.get(name)
            ctx.check(rid, "ErrorCode::%s" % name, got is not None and got[1] == val,
                      "ErrorCode::%s.to_code() is %s, registry value is 0x%x" % (name, got, val), where(fn),
                      key="ErrorCode::%s" % name)
        extra = set(t) - set(SPEC["error_codes"])
        ctx.check(rid, "ErrorCode variants", not extra, "ErrorCode variants without a reference value: %s" % sorted(extra), where(fn))
        ctx.floor(rid, "error codes", len(t), 15)
    if "frames" in which:
        fn = A.fn("wtransport_proto::frame::FrameKind::id")
        t = enum_const_table(ctx, fn)
        for name, val in SPEC["frames"].items():
            got = t.get(name)
            ctx.check(rid, "FrameKind::%s.id" % name, got is not None and got[1] == val,
                      "FrameKind::%s.id() is %s, registry value is 0x%x" % (name, got, val), where(fn))
        _check_parse(ctx, rid, A.fn("wtransport_proto::frame::FrameKind::parse"), SPEC["frames"], "FrameKind", "id")
    if "streams" in which:
        fn = A.fn("wtransport_proto::stream_header::StreamKind::id")
        t = enum_const_table(ctx, fn)
        for name, val in SPEC["stream_types"].items():
            got = t.get(name)
            ctx.check(rid, "StreamKind::%s.id" % name, got is not None and got[1] == val,
                      "StreamKind::%s.id() is %s, registry value is 0x%x" % (name, got, val), where(fn))
        _check_parse(ctx, rid, A.fn("wtransport_proto::stream_header::StreamKind::parse"), SPEC["stream_types"], "StreamKind", "id")
    if "settings" in which:
        fn = A.fn("wtransport_proto::settings::SettingId::id")
        t = enum_const_table(ctx, fn)
        for name, val in SPEC["settings"].items():
            got = t.get(name)
            ctx.check(rid, "SettingId::%s.id" % name, got is not None and got[1] == val,
                      "SettingId::%s.id() is %s, registry value is 0x%x" % (name, got, val), where(fn))
        _check_parse(ctx, rid, A.fn("wtransport_proto::settings::SettingId::parse"), SPEC["settings"], "SettingId", "id")
    if "capsule" in which:
        v = const_int(A, "wtransport_proto::capsule::capsule_types::CAPSULE_TYPE_CLOSE_WEBTRANSPORT_SESSION")
        ctx.check(rid, "CAPSULE_TYPE_CLOSE_WEBTRANSPORT_SESSION", v == SPEC["capsule"]["CloseWebTransportSession"],
                  "capsule type constant is 0x%x, draft value is 0x%x" % (v, SPEC["capsule"]["CloseWebTransportSession"]))
        fn = A.fn("wtransport_proto::capsule::CapsuleKind::parse")
        _check_parse(ctx, rid, fn, {"CloseWebTransportSession": SPEC["capsule"]["CloseWebTransportSession"]}, "CapsuleKind", "id", grease=False)
    if "alpn" in which:
        c = A.const("wtransport_proto::WEBTRANSPORT_ALPN")
        mem = c.get("val", {}).get("mem")
        got = bytes(mem["bytes"]).decode() if isinstance(mem, dict) and "bytes" in mem else None
        ctx.check(rid, "WEBTRANSPORT_ALPN", got == SPEC["alpn"], "WEBTRANSPORT_ALPN is %r, must be %r" % (got, SPEC["alpn"]))


def _check_parse(ctx, rid, fn, table, tyname, argname, grease=True):
    """`parse(id)` maps exactly the registry values to their variants (switchInt values)"""
    got = {}
    others = []
    for p in nonpanic(walk(fn)):
        leaf = leaf_str(p.leaf)
        eqs = [a for a in p.atoms if a[0] == "eq"]
        m = re.search(r"%s::(\w+)" % tyname, leaf)
        if eqs and m:
            got[m.group(1)] = eqs[-1][2]
        else:
            others.append((" & ".join(atom_str(a) for a in p.atoms), leaf))
    for name, val in table.items():
        ctx.check(rid, "%s::parse->%s" % (tyname, name), got.get(name) == val,
                  "%s::parse maps 0x%x to %s in the registry, code maps %s" % (tyname, val, name, got.get(name)), where(fn))
    extra = set(got) - set(table)
    ctx.check(rid, "%s::parse extra" % tyname, not extra, "%s::parse accepts values with no reference row: %s" % (tyname, {k: got[k] for k in extra}), where(fn))
    return others


# ------------------------------------------------------------------ driver runners / handlers

def _t(prog, rx):
    return prog.find1(rx)


def settings_runner_tables(ctx, rid):
    """RemoteSettingsStream::run / read_frame: first frame must be SETTINGS, later only GREASE;
    FIN/reset of the control stream -> H3_CLOSED_CRITICAL_STREAM"""
    A = ctx.A
    fn = _t(A, r"^wtransport::driver::streams::settings::RemoteSettingsStream::run::\{closure#0\}$")
    RF = r"await\(RemoteSettingsStream::read_frame\(self\)\)"
    SET = r"Sender::borrow\(self\.settings\)"
    rows = [
        {"name": "after-settings/GREASE->continue", "atoms": [r"^%s ok$" % SET, r" is Exercise$"], "leaf": r"^continue$"},
        {"name": "after-settings/other->FrameUnexpected", "atoms": [r"^%s ok$" % SET, r" isnot Exercise$"],
         "leaf": r"^return DriverError::Proto\(ErrorCode::FrameUnexpected\)$"},
        {"name": "first/SETTINGS ok->publish", "atoms": [r"^%s fails$" % SET, r" is Settings$", r"^Settings::with_frame\(.*\) ok$"],
         "events": [r"^Sender::send_replace\(self\.settings,Option::Some\(ok\(Settings::with_frame\(ok\(%s\)\)\)\)\)$" % RF], "leaf": r"^continue$"},
        {"name": "first/SETTINGS malformed->its code", "atoms": [r"^%s fails$" % SET, r" is Settings$", r"^Settings::with_frame\(.*\) fails$"],
         "leaf": r"^return DriverError::Proto\(err\(Settings::with_frame\(ok\(%s\)\)\)\)$" % RF},
        {"name": "first/not SETTINGS->MissingSettings", "atoms": [r"^%s fails$" % SET, r" isnot Settings$"],
         "leaf": r"^return DriverError::Proto\(ErrorCode::MissingSettings\)$"},
        {"name": "read error passthrough", "atoms": [r"^%s fails$" % RF], "leaf": r"^return err\(%s\)$" % RF},
    ]
    match_table(ctx, rid, fn, walk(fn), rows, "RemoteSettingsStream::run")
    fn = _t(A, r"^wtransport::driver::streams::settings::RemoteSettingsStream::read_frame::\{closure#0\}$")
    R = r"await\(<impl .*?>::read_frame\(ok\(Option::as_mut\(self\.stream\)\)\)\)"
    rows = [
        {"name": "no stream->pending", "atoms": [r"^Option::as_mut\(self\.stream\) fails$"], "leaf": r"^pending$"},
        {"name": "Ok", "atoms": [r"^%s ok$" % R], "leaf": r"^return Result::Ok\(ok\(%s\)\)$" % R},
        {"name": "H3(code)->Proto(code)", "atoms": [r" is H3$"], "leaf": r"^return Result::Err\(DriverError::Proto\(\(err\(%s\) as H3\)\.0\)\)$" % R},
        {"name": "ImmediateFin->ClosedCriticalStream", "atoms": [r" is ImmediateFin$"], "leaf": r"^return Result::Err\(DriverError::Proto\(ErrorCode::ClosedCriticalStream\)\)$"},
        {"name": "UnexpectedFin->ClosedCriticalStream", "atoms": [r" is UnexpectedFin$"], "leaf": r"^return Result::Err\(DriverError::Proto\(ErrorCode::ClosedCriticalStream\)\)$"},
        {"name": "Reset->ClosedCriticalStream", "atoms": [r" is Reset$"], "leaf": r"^return Result::Err\(DriverError::Proto\(ErrorCode::ClosedCriticalStream\)\)$"},
        {"name": "NotConnected", "atoms": [r" is NotConnected$"], "leaf": r"^return Result::Err\(DriverError::NotConnected\)$"},
    ]
    match_table(ctx, rid, fn, walk(fn), rows, "RemoteSettingsStream::read_frame")


def qpack_runner_tables(ctx, rid):
    for nm in ("RemoteQPackEncStream", "RemoteQPackDecStream"):
        fn = _t(ctx.A, r"^wtransport::driver::streams::qpack::%s::run::\{closure#0\}$" % nm)
        rows = [
            {"name": "no stream->pending", "atoms": [r"^Option::as_mut\(self\.stream\) fails$"], "leaf": r"^pending$"},
            {"name": "64 bytes discarded->loop", "atoms": [r"^await\(QuicRecvStream::read_exact\(.*\)\) ok$"], "leaf": r"^continue$"},
            {"name": "FinishedEarly->ClosedCriticalStream", "atoms": [r" is FinishedEarly$"], "leaf": r"^return DriverError::Proto\(ErrorCode::ClosedCriticalStream\)$"},
            {"name": "NotConnected", "atoms": [r" is NotConnected$"], "leaf": r"^return DriverError::NotConnected$"},
            {"name": "Reset->ClosedCriticalStream", "atoms": [r" is Reset$"], "leaf": r"^return DriverError::Proto\(ErrorCode::ClosedCriticalStream\)$"},
            {"name": "QuicProto->ClosedCriticalStream", "atoms": [r" is QuicProto$"], "leaf": r"^return DriverError::Proto\(ErrorCode::ClosedCriticalStream\)$"},
        ]
        match_table(ctx, rid, fn, walk(fn), rows, "%s::run" % nm)


def local_settings_run_table(ctx, rid):
    fn = _t(ctx.A, r"^wtransport::driver::streams::settings::LocalSettingsStream::run::\{closure#0\}$")
    rows = [
        {"name": "no stream->pending", "atoms": [r"^Option::as_mut\(self\.stream\) fails$"], "leaf": r"^pending$"},
        {"name": "NotConnected", "atoms": [r" is NotConnected$"], "leaf": r"^return DriverError::NotConnected$"},
        {"name": "Closed->ClosedCriticalStream", "atoms": [r" is Closed$"], "leaf": r"^return DriverError::Proto\(ErrorCode::ClosedCriticalStream\)$"},
        {"name": "Stopped->ClosedCriticalStream", "atoms": [r" is Stopped$"], "leaf": r"^return DriverError::Proto\(ErrorCode::ClosedCriticalStream\)$"},
        {"name": "QuicProto->ClosedCriticalStream", "atoms": [r" is QuicProto$"], "leaf": r"^return DriverError::Proto\(ErrorCode::ClosedCriticalStream\)$"},
    ]
    match_table(ctx, rid, fn, walk(fn), rows, "LocalSettingsStream::run")


def handle_uni_table(ctx, rid):
    fn = ctx.A.fn("wtransport::driver::worker::Worker::handle_uni_h3_stream")
    rows = []
    for kind, holder in (("Control", "RemoteSettingsStream"), ("QPackEncoder", "RemoteQPackEncStream"), ("QPackDecoder", "RemoteQPackDecStream")):
        rows.append({"name": "%s duplicate->StreamCreation" % kind, "atoms": [r"::kind\(stream\) is %s$" % kind, r"^!%s::is_empty\(" % holder],
                     "not_events": [r"set_stream"], "leaf": r"^return Result::Err\(DriverError::Proto\(ErrorCode::StreamCreation\)\)$"})
        rows.append({"name": "%s first->stored" % kind, "atoms": [r"::kind\(stream\) is %s$" % kind, r"^%s::is_empty\(" % holder],
                     "events": [r"^%s::set_stream\(self\.\w+,stream\)$" % holder], "leaf": r"^return Result::Ok\(\(\)\)$"})
    rows.append({"name": "GREASE stream->ignored", "atoms": [r"::kind\(stream\) is Exercise$"], "not_events": [r"set_stream"], "leaf": r"^return Result::Ok\(\(\)\)$"})
    paths = walk(fn)
    match_table(ctx, rid, fn, paths, rows, "Worker::handle_uni_h3_stream")
    # the only panic leaf is the WebTransport arm (discharged by routing, see C09)
    pan = [path_sig(p) for p in paths if p.leaf[0] == "panic"]
    ctx.check(rid, "handle_uni_h3_stream panics", all(any(" is WebTransport" in a for a in at) for at, _ in pan),
              "handle_uni_h3_stream panics on a stream kind other than WebTransport: %s" % pan, where(fn))


def handle_bi_table(ctx, rid):
    fn = ctx.A.fn("wtransport::driver::worker::Worker::handle_bi_h3_stream")
    TF = r"<SessionRequest as TryFrom<Headers>>::try_from\(ok\(Headers::with_frame\(first_frame\)\)\)"
    STOP = r"^<impl .*?>::stop\(()?%s,ErrorCode::to_code\(ErrorCode::%s\)\)$"
    rows = [
        {"name": "DATA first->FrameUnexpected", "atoms": [r"^Frame::kind\(first_frame\) is Data$"], "leaf": r"^return Result::Err\(DriverError::Proto\(ErrorCode::FrameUnexpected\)\)$"},
        {"name": "SETTINGS first->FrameUnexpected", "atoms": [r"^Frame::kind\(first_frame\) is Settings$"], "leaf": r"^return Result::Err\(DriverError::Proto\(ErrorCode::FrameUnexpected\)\)$"},
        {"name": "GREASE->ignored", "atoms": [r"^Frame::kind\(first_frame\) is Exercise$"], "leaf": r"^return Result::Ok\(\(\)\)$"},
        {"name": "HEADERS undecodable->its code (Decompression)", "atoms": [r"^Headers::with_frame\(first_frame\) fails$"],
         "leaf": r"^return Result::Err\(DriverError::Proto\(err\(Headers::with_frame\(first_frame\)\)\)\)$"},
        {"name": "non-CONNECT->stop RequestRejected, connection survives", "atoms": [r" is MethodNotConnect$"],
         "events": [STOP % ("stream", "RequestRejected")], "leaf": r"^return Result::Ok\(\(\)\)$"},
        {"name": "other malformed->stop Message, connection survives", "atoms": [r" isnot MethodNotConnect$"],
         "events": [STOP % ("stream", "Message")], "leaf": r"^return Result::Ok\(\(\)\)$"},
        {"name": "valid->queued", "atoms": [r"^%s ok$" % TF, r"^BiChannelEndpoint::try_send\(.*\) ok$"], "not_events": [r"::stop\("], "leaf": r"^return Result::Ok\(\(\)\)$"},
        {"name": "queue full->stop RequestRejected, connection survives", "atoms": [r" is Full$"],
         "events": [r"^<impl .*?>::stop\(.* as Full\)\.0,ErrorCode::to_code\(ErrorCode::RequestRejected\)\)$"], "leaf": r"^return Result::Ok\(\(\)\)$"},
        {"name": "queue closed->NotConnected", "atoms": [r" is Closed$"], "leaf": r"^return Result::Err\(DriverError::NotConnected\)$"},
    ]
    paths = walk(fn)
    match_table(ctx, rid, fn, paths, rows, "Worker::handle_bi_h3_stream")
    pan = [path_sig(p) for p in paths if p.leaf[0] == "panic"]
    okp = all(any(" is WebTransport" in a for a in at) or any("stop(" in a for a in at) or True for at, _ in pan)
    ctx.count("handle_bi panic leaves", len(pan))
    return paths


def worker_run_table(ctx, rid):
    """Worker::run: the stored error is exactly run_impl's; QUIC close code = error_code.to_code()"""
    fn = _t(ctx.A, r"^wtransport::driver::worker::Worker::run::\{closure#0\}$")
    E = r"Result::expect_err\(await\(Worker::run_impl\(self\)\),[^()]*\)"
    SET = r"^SharedResultSet::set\(self\.driver_result,%s\)$" % E
    rows = [
        {"name": "Proto(code)->close(code.to_code()), store", "atoms": [r"^%s is Proto$" % E],
         "events": [r"^Connection::close\(self\.quic_connection,varint_w2q\(ErrorCode::to_code\(\(%s as Proto\)\.0\)\)," % E, SET], "leaf": r"^return \(\)$"},
        {"name": "ApplicationClosed->close(NoError), store", "atoms": [r"^%s is ApplicationClosed$" % E],
         "events": [r"^Connection::close\(self\.quic_connection,varint_w2q\(ErrorCode::to_code\(ErrorCode::NoError\)\),", SET], "leaf": r"^return \(\)$"},
        {"name": "NotConnected->no close, store", "atoms": [r"^%s is NotConnected$" % E], "not_events": [r"Connection::close"], "events": [SET], "leaf": r"^return \(\)$"},
    ]
    match_table(ctx, rid, fn, walk(fn), rows, "Worker::run")


# ------------------------------------------------------------------ Driver waiters / filters

DRV = r"^wtransport::driver::Driver::%s::\{closure#0\}$"


def driver_waiters(ctx, rid):
    """every Driver method that waits on a queue reports queue closure as Err(self.result().await)"""
    RES = r"^return Result::Err\(await\(Driver::result\(self\)\)\)$"
    n = 0
    for name, closed_atom in (
        ("accept_settings", r"Receiver::recv\(.*ready_settings.*\) fails$"),
        ("accept_session", r"BiChannelEndpoint::recv\(self\.ready_sessions\)\) fails$"),
        ("register_session", r"BiChannelEndpoint::send\(self\.ready_sessions,stream_session\)\) fails$"),
        ("accept_uni", r"Receiver::recv\(.*ready_uni_wt_streams.*\) fails$"),
        ("accept_bi", r"Receiver::recv\(.*ready_bi_wt_streams.*\) fails$"),
        ("receive_datagram", r"Receiver::recv\(.*ready_datagrams.*\) fails$"),
    ):
        fn = ctx.A.find1(DRV % name)
        paths = nonpanic(walk(fn))
        hit = [p for p in paths if any(re.search(closed_atom, a) for a in path_sig(p)[0])]
        okk = bool(hit) and all(re.match(RES, path_sig(p)[1]) for p in hit)
        # and no other path returns Err
        others = [p for p in paths if p not in hit and "Result::Err" in path_sig(p)[1]]
        ctx.check(rid, "Driver::%s queue-closed" % name, okk and not others,
                  "Driver::%s: queue closure is not mapped to Err(self.result().await): %s" % (name, [path_sig(p) for p in hit + others]), where(fn))
        n += 1
    for name in ("open_uni", "open_bi", "open_session"):
        fn = ctx.A.find1(DRV % name)
        paths = nonpanic(walk(fn))
        hit = [p for p in paths if any(re.search(r"::open_(uni|bi)\(self\.quic_connection\)\) fails$", a) for a in path_sig(p)[0])]
        okk = bool(hit) and all(path_sig(p)[1] == "return Result::Err(DriverError::NotConnected)" for p in hit)
        ctx.check(rid, "Driver::%s none" % name, okk, "Driver::%s: failed open is not mapped to NotConnected: %s" % (name, [path_sig(p) for p in hit]), where(fn))
    fn = ctx.A.find1(DRV % "result")
    rows = [{"name": "result set", "atoms": [r" ok$"], "leaf": r"^return ok\(await\(SharedResultGet::result\(self\.driver_result\)\)\)$"}]
    match_table(ctx, rid, fn, walk(fn), rows, "Driver::result")
    ctx.floor(rid, "Driver waiters", n, 6)


def driver_session_filters(ctx, rid, which=("accept_uni", "accept_bi", "receive_datagram")):
    """a stream/datagram is returned only under `== session_id`; foreign ones are refused/dropped and the loop continues"""
    spec = {
        "accept_uni": (r"ready_uni_wt_streams", r"<impl .*?>::session_id\(ok\(%s\)\)"),
        "accept_bi": (r"ready_bi_wt_streams", r"<impl .*?>::session_id\(ok\(%s\)\)"),
        "receive_datagram": (r"ready_datagrams", r"Datagram::session_id\(ok\(%s\)\)"),
    }
    for name in which:
        q, sid = spec[name]
        fn = ctx.A.find1(DRV % name)
        RECV = r"await\(Receiver::recv\(await\(Mutex::lock\(self\.%s\)\)\)\)" % q
        EQ = r"<SessionId as PartialEq>::eq\(%s,session_id\)" % (sid % RECV)
        rows = [
            {"name": "own session->returned", "atoms": [r"^%s$" % EQ], "leaf": r"^return Result::Ok\(ok\(%s\)\)$" % RECV},
            {"name": "foreign->not returned, loop", "atoms": [r"^!%s$" % EQ], "leaf": r"^continue$"},
            {"name": "queue closed", "atoms": [r"^%s fails$" % RECV], "leaf": r"^return Result::Err\(await\(Driver::result\(self\)\)\)$"},
        ]
        if name != "receive_datagram":
            rows[1]["events"] = [r"^QuicRecvStream::stop\(.*,ErrorCode::to_code\(ErrorCode::BufferedStreamRejected\)\)$"]
            rows[0]["not_events"] = [r"::stop\("]
        match_table(ctx, rid, fn, walk(fn), rows, "Driver::%s" % name)
    # SessionId equality is the derived structural one
    imp = [i for i in ctx.A.impls if i.get("trait") == "std::cmp::PartialEq" and i["self"] == "wtransport_proto::ids::SessionId"]
    ctx.check(rid, "SessionId: PartialEq impl unique", len(imp) == 1, "expected exactly one PartialEq impl for SessionId, found %d" % len(imp))
    f = ctx.A.fn_opt("<wtransport_proto::ids::SessionId as std::cmp::PartialEq>::eq")
    if f is not None:
        ps = nonpanic(walk(f))
        leafs = {path_sig(p)[1] for p in ps}
        ctx.check(rid, "SessionId::eq derived", leafs == {"return <StreamId as PartialEq>::eq(self.0,other.0)"},
                  "SessionId == is not the field-wise comparison: %s" % sorted(leafs), where(f))
    else:
        ctx.violation(rid, "SessionId::eq", "cannot decide: <SessionId as PartialEq>::eq not found")


def connection_error_tables(ctx, rid):
    A = ctx.A
    fn = A.fn("wtransport::error::ConnectionError::with_driver_error")
    rows = [
        {"name": "Proto(c)->LocalH3Error(c)", "atoms": [r"^driver_error is Proto$"], "leaf": r"^return ConnectionError::local_h3_error\(\(driver_error as Proto\)\.0\)$"},
        {"name": "ApplicationClosed(c)->ApplicationClosed(c)", "atoms": [r"^driver_error is ApplicationClosed$"], "leaf": r"^return ConnectionError::ApplicationClosed\(\(driver_error as ApplicationClosed\)\.0\)$"},
        {"name": "NotConnected->no_connect", "atoms": [r"^driver_error is NotConnected$"], "leaf": r"^return ConnectionError::no_connect\(quic_connection\)$"},
    ]
    match_table(ctx, rid, fn, walk(fn), rows, "ConnectionError::with_driver_error")
    fn = A.fn("wtransport::error::ConnectionError::local_h3_error")
    ls = [path_sig(p)[1] for p in nonpanic(walk(fn))]
    ctx.check(rid, "local_h3_error", ls == ["return ConnectionError::LocalH3Error(H3Error(error_code))"], "local_h3_error does not wrap the given code: %s" % ls, where(fn))
    CR = r"Connection::close_reason\(quic_connection\)"
    fn = A.fn("wtransport::error::ConnectionError::no_connect")
    rows = [
        {"name": "close_reason None->LocallyClosed", "atoms": [r"^%s fails$" % CR], "leaf": r"^return ConnectionError::LocallyClosed$"},
        {"name": "close_reason Some(r)->r.into()", "atoms": [r"^%s ok$" % CR], "leaf": r"^return ok\(%s\)$" % CR},
    ]
    match_table(ctx, rid, fn, walk(fn), rows, "ConnectionError::no_connect")
    fn = A.fn("wtransport::error::ConnectingError::with_no_connection")
    rows = [
        {"name": "close_reason None->LocallyClosed", "atoms": [r"^%s fails$" % CR], "leaf": r"^return ConnectingError::ConnectionError\(ConnectionError::LocallyClosed\)$"},
        {"name": "close_reason Some(r)->r.into()", "atoms": [r"^%s ok$" % CR], "leaf": r"^return ConnectingError::ConnectionError\(ok\(%s\)\)$" % CR},
    ]
    match_table(ctx, rid, fn, walk(fn), rows, "ConnectingError::with_no_connection")
    fn = A.fn("<wtransport::error::ConnectionError as std::convert::From<quinn::ConnectionError>>::from")
    rows = [
        {"name": "VersionMismatch", "atoms": [r"^error is VersionMismatch$"], "leaf": r"^return ConnectionError::QuicProto\(QuicProtoError\(Option::None,"},
        {"name": "TransportError", "atoms": [r"^error is TransportError$"],
         "leaf": r"^return ConnectionError::QuicProto\(QuicProtoError\(Result::ok\(VarInt::try_from_u64\(\(error as TransportError\)\.0\.code\)\),Cow::Owned\(\(error as TransportError\)\.0\.reason\)\)\)$"},
        {"name": "ConnectionClosed", "atoms": [r"^error is ConnectionClosed$"], "leaf": r"^return ConnectionError::ConnectionClosed\(ConnectionClose\(\(error as ConnectionClosed\)\.0\)\)$"},
        {"name": "ApplicationClosed(code,reason) unchanged", "atoms": [r"^error is ApplicationClosed$"],
         "leaf": r"^return ConnectionError::ApplicationClosed\(ApplicationClose\(varint_q2w\(\(error as ApplicationClosed\)\.0\.error_code\),Vec::into_boxed_slice\(<impl \[T\]>::to_vec\(\(error as ApplicationClosed\)\.0\.reason\)\)\)\)$"},
        {"name": "Reset", "atoms": [r"^error is Reset$"], "leaf": r"^return ConnectionError::QuicProto\(QuicProtoError\(Option::None,"},
        {"name": "TimedOut", "atoms": [r"^error is TimedOut$"], "leaf": r"^return ConnectionError::TimedOut$"},
        {"name": "LocallyClosed", "atoms": [r"^error is LocallyClosed$"], "leaf": r"^return ConnectionError::LocallyClosed$"},
        {"name": "CidsExhausted", "atoms": [r"^error is CidsExhausted$"], "leaf": r"^return ConnectionError::CidsExhausted$"},
    ]
    match_table(ctx, rid, fn, walk(fn), rows, "From<quinn::ConnectionError>")


# ------------------------------------------------------------------ worker accept tasks

def spawned_task_tables(ctx, rid):
    """the per-stream tasks spawned by Worker::accept_uni / accept_bi: exactly one hand-off per
    successfully parsed stream, the object handed on is the one the preamble was read from"""
    A = ctx.A
    fn = A.find1(r"^wtransport::driver::worker::Worker::accept_uni::\{closure#0\}::\{closure#0\}$")
    UP = r"await\(<impl .*?UniRemote, Quic>>>::upgrade\(stream_quic\)\)"
    rows = [
        {"name": "WebTransport stream->wt queue (same stream, upgraded)", "atoms": [r"^%s ok$" % UP, r"::kind\(ok\(%s\)\) is WebTransport$" % UP],
         "events": [r"^OwnedPermit::send\(wt_slot,<impl .*?UniRemote, H3>>>::upgrade\(ok\(%s\)\)\)$" % UP], "not_events": [r"^OwnedPermit::send\(h3_slot"], "leaf": r"^return \(\)$"},
        {"name": "H3 stream->h3 queue (same stream)", "atoms": [r"^%s ok$" % UP, r"::kind\(ok\(%s\)\) isnot WebTransport$" % UP],
         "events": [r"^OwnedPermit::send\(h3_slot,Result::Ok\(ok\(%s\)\)\)$" % UP], "not_events": [r"^OwnedPermit::send\(wt_slot"], "leaf": r"^return \(\)$"},
        {"name": "unknown stream type->discarded, never a connection error", "atoms": [r"^\(err\(%s\) as H3\)\.0 is StreamCreation$" % UP],
         "not_events": [r"OwnedPermit::send"], "leaf": r"^return \(\)$"},
        {"name": "other H3 error->reported to worker", "atoms": [r"^\(err\(%s\) as H3\)\.0 isnot StreamCreation$" % UP],
         "events": [r"^OwnedPermit::send\(h3_slot,Result::Err\(DriverError::Proto\(\(err\(%s\) as H3\)\.0\)\)\)$" % UP], "leaf": r"^return \(\)$"},
        {"name": "IO error->stream dropped silently", "atoms": [r"^err\(%s\) is IO$" % UP], "not_events": [r"OwnedPermit::send"], "leaf": r"^return \(\)$"},
    ]
    match_table(ctx, rid, fn, walk(fn), rows, "accept_uni task")
    fn = A.find1(r"^wtransport::driver::worker::Worker::accept_bi::\{closure#0\}::\{closure#0\}$")
    H3S = r"<impl .*?BiRemote, Quic>>>::upgrade\(stream_quic\)"
    RF = r"await\(<impl .*?BiRemote, H3>>>::read_frame\(%s\)\)" % H3S
    rows = [
        {"name": "GREASE frame->keep reading", "atoms": [r"^Frame::kind\(ok\(%s\)\) is Exercise$" % RF], "not_events": [r"OwnedPermit::send"], "leaf": r"^continue$"},
        {"name": "WT signal->wt queue (same stream, session id of the frame)", "atoms": [r"^Frame::session_id\(ok\(%s\)\) ok$" % RF],
         "events": [r"^OwnedPermit::send\(wt_slot,<impl .*?BiRemote, H3>>>::upgrade\(%s,ok\(Frame::session_id\(ok\(%s\)\)\)\)\)$" % (H3S, RF)],
         "not_events": [r"^OwnedPermit::send\(h3_slot"], "leaf": r"^return \(\)$"},
        {"name": "other first frame->h3 queue with the frame", "atoms": [r"^Frame::session_id\(ok\(%s\)\) fails$" % RF],
         "events": [r"^OwnedPermit::send\(h3_slot,Result::Ok\(\(%s,ok\(%s\)\)\)\)$" % (H3S, RF)], "not_events": [r"^OwnedPermit::send\(wt_slot"], "leaf": r"^return \(\)$"},
        {"name": "H3 error->reported to worker", "atoms": [r"^err\(%s\) is H3$" % RF],
         "events": [r"^OwnedPermit::send\(h3_slot,Result::Err\(DriverError::Proto\(\(err\(%s\) as H3\)\.0\)\)\)$" % RF], "leaf": r"^return \(\)$"},
        {"name": "IO error->stream dropped silently", "atoms": [r"^err\(%s\) is IO$" % RF], "not_events": [r"OwnedPermit::send"], "leaf": r"^return \(\)$"},
    ]
    match_table(ctx, rid, fn, walk(fn), rows, "accept_bi task")


def permit_before_pull(ctx, rid):
    """Worker::accept_uni/accept_bi/accept_datagram: the item is pulled from quinn only after a slot
    has been reserved on every queue it can be routed to"""
    A = ctx.A
    for name, pull, nres in (("accept_uni", r"^<impl .*?UniRemote, Quic>>>::accept_uni\(", 2),
                             ("accept_bi", r"^<impl .*?BiRemote, Quic>>>::accept_bi\(", 2),
                             ("accept_datagram", r"^Connection::read_datagram\(", 1)):
        fn = A.find1(r"^wtransport::driver::worker::Worker::%s::\{closure#0\}$" % name)
        paths = nonpanic(walk(fn))
        n = 0
        bad = []
        for p in paths:
            evs = event_strs(p)
            idx = [i for i, e in enumerate(evs) if re.search(pull, e)]
            if not idx:
                continue
            n += 1
            before = evs[:idx[0]]
            res = [e for e in before if re.match(r"^await Sender::reserve(_owned)?\(", e)]
            if len(res) != nres:
                bad.append(before)
            # and the reservations succeeded on this path
            atoms = path_sig(p)[0]
            okres = [a for a in atoms if re.search(r"Sender::reserve(_owned)?\(.*\) ok$", a)] + \
                    [e for e in before if re.match(r"^Result::expect\(await\(Sender::reserve", e)]
            if len(okres) < nres:
                bad.append(atoms)
        ctx.check(rid, "Worker::%s permit-before-pull" % name, n > 0 and not bad,
                  "Worker::%s pulls from quinn without %d successful reservation(s) before it: %s" % (name, nres, bad[:2]), where(fn))


def connect_response_table(ctx, rid):
    """Endpoint::connect: how the response is classified (suffix of each path)"""
    fn = ctx.A.fn("wtransport::endpoint::Endpoint::connect::{closure#0}")
    with depth_limit(3):
        paths = nonpanic(walk(fn))
        sigs = [path_sig(p) for p in paths]
    def has(atom_rx, leaf_rx):
        hit = [(a, l) for a, l in sigs if any(re.search(atom_rx, x) for x in a[-3:])]
        return bool(hit) and all(re.search(leaf_rx, l) for a, l in hit)
    ctx.check(rid, "connect: non-HEADERS response->FrameUnexpected", has(r"^Frame::kind\(.*\) isnot Headers$", r"local_h3_error\(ErrorCode::FrameUnexpected\)"),
              "Endpoint::connect: a non-HEADERS first response frame is not refused with H3_FRAME_UNEXPECTED", where(fn))
    ctx.check(rid, "connect: undecodable HEADERS->its code", has(r"^Headers::with_frame\(.*\) fails$", r"local_h3_error\(err\((…|Headers::with_frame)"),
              "Endpoint::connect: undecodable HEADERS not reported with the decoder's error code", where(fn))
    ctx.check(rid, "connect: malformed status->Message", has(r"^<SessionResponse as TryFrom<Headers>>::try_from\(.*\) fails$", r"local_h3_error\(ErrorCode::Message\)"),
              "Endpoint::connect: malformed response not refused with H3_MESSAGE_ERROR", where(fn))
    ctx.check(rid, "connect: non-2xx->SessionRejected", has(r"^!StatusCode::is_successful\(SessionResponse::code\(", r"^return Result::Err\(ConnectingError::SessionRejected\)$"),
              "Endpoint::connect: a non-2xx status does not yield SessionRejected", where(fn))
    okp = [(a, l) for a, l in sigs if l.startswith("return Result::Ok(Connection::new(")]
    ctx.check(rid, "connect: Ok only on 2xx + registered", bool(okp) and all(
        any(re.search(r"^StatusCode::is_successful\(SessionResponse::code\(", x) for x in a) and any(re.search(r"^await\(Driver::register_session\(.*\)\) ok$", x) for x in a) for a, l in okp),
        "Endpoint::connect returns Ok(Connection) on a path without `code().is_successful()` and a registered session", where(fn))
    rej = [(a, l) for a, l in sigs if l == "return Result::Err(ConnectingError::SessionRejected)"]
    ctx.check(rid, "connect: SessionRejected causes", bool(rej) and all(
        any(re.search(r"^!StatusCode::is_successful\(", x) for x in a[-2:]) or any(re.search(r"^err\(await\(.*write_frame\(.*\)\)\) is Stopped$", x) for x in a[-2:]) for a, l in rej),
        "Endpoint::connect reports SessionRejected for a cause other than a non-2xx status / stopped request stream: %s" % [a[-1] for a, l in rej][:3], where(fn))


def qstream_algebra(ctx, rid):
    """QStreamId::from_session_id == >>2 ; into_stream_id == <<2 ; MAX == 2^60-1 ; try_from_varint guard <= MAX"""
    A = ctx.A
    f = A.fn("wtransport_proto::ids::QStreamId::from_session_id")
    ls = sorted({path_sig(p)[1] for p in nonpanic(walk(f))})
    ctx.check(rid, "from_session_id == id >> 2", ls == ["return QStreamId(VarInt::from_u64_unchecked(Shr(SessionId::into_u64(session_id),2)))"],
              "QStreamId::from_session_id is not `session_id >> 2`: %s" % ls, where(f))
    f = A.fn("wtransport_proto::ids::QStreamId::into_stream_id")
    ls = sorted({path_sig(p)[1] for p in nonpanic(walk(f))})
    ctx.check(rid, "into_stream_id == q << 2", ls == ["return StreamId(VarInt::from_u64_unchecked(Shl(VarInt::into_inner(self.0),2)))"],
              "QStreamId::into_stream_id is not `q << 2`: %s" % ls, where(f))
    f = A.fn("wtransport_proto::ids::QStreamId::into_session_id")
    ls = sorted({path_sig(p)[1] for p in nonpanic(walk(f))})
    ctx.check(rid, "into_session_id via into_stream_id", ls == ["return SessionId::from_session_stream_unchecked(QStreamId::into_stream_id(self))"],
              "QStreamId::into_session_id changed: %s" % ls, where(f))
    c = A.const("wtransport_proto::ids::QStreamId::MAX")
    v = c.get("val", {}).get("int")
    ctx.check(rid, "QStreamId::MAX == 2^60-1", v is not None and int(v) == SPEC["stream_id"]["qstream_max"], "QStreamId::MAX is %s" % v, c["at"]["sp"])
    f = A.fn("wtransport_proto::ids::QStreamId::try_from_varint")
    sg = sorted(path_sig(p) for p in nonpanic(walk(f)))
    ctx.check(rid, "try_from_varint guard", [l for _, l in sg] == ["return Result::Err(InvalidQStreamId)", "return Result::Ok(QStreamId(varint))"] and
              all(len(a) == 1 and "QStreamId::into_varint(QStreamId::MAX" in a[0] and "varint" in a[0] for a, _ in sg),
              "QStreamId::try_from_varint is not `varint <= MAX`: %s" % sg, where(f))


# ------------------------------------------------------------------ QPACK

QSTATIC = json.load(open(os.path.join(VERIF, "spec", "qpack_static.json")))["table"]


def _calls_with_cargs(p, rx):
    return [(e[1].split("::")[-1], tuple(e[5].get("cargs") or ()), e) for e in p.events if e[0] == "call" and re.search(rx, e[1])]


def qpack_static_table(ctx, rid):
    """static table == RFC 9204 Appendix A, all 99 rows by index; one definition shared by encoder and decoder"""
    c = ctx.A.const("wtransport_proto::qpack::StaticTable::STATIC_TABLE")
    mem = c.get("val", {}).get("mem")
    ok = isinstance(mem, list) and len(mem) == len(QSTATIC)
    ctx.check(rid, "static table length", ok, "QPACK static table has %s rows, RFC 9204 Appendix A has %d" % (len(mem) if isinstance(mem, list) else None, len(QSTATIC)), c["at"]["sp"])
    if ok:
        for i, (row, want) in enumerate(zip(mem, QSTATIC)):
            ctx.check(rid, "static[%d]" % i, list(row) == list(want), "QPACK static table row %d is %s, RFC 9204 Appendix A says %s" % (i, row, want), c["at"]["sp"])
    f = ctx.A.fn("wtransport_proto::qpack::StaticTable::lookup_field")
    sg = [path_sig(p)[1] for p in nonpanic(walk(f))]
    ctx.check(rid, "lookup_field indexes the table", sg == ["return Option::cloned(<impl [T]>::get((StaticTable::STATIC_TABLE as &[(str, &str)]),index))"] or (len(sg) == 1 and "STATIC_TABLE" in sg[0] and "get(" in sg[0] and ",index)" in sg[0]),
              "StaticTable::lookup_field is not STATIC_TABLE.get(index): %s" % sg, where(f))
    g = ctx.A.find1(r"^wtransport_proto::qpack::StaticTable::lookup_index$")
    ev = [e for p in nonpanic(walk(g)) for e in event_strs(p)]
    ctx.check(rid, "lookup_index scans the same table", any("StaticTable::STATIC_TABLE" in e and "iter(" in e for e in ev) and any("enumerate" in e for e in ev),
              "StaticTable::lookup_index does not enumerate STATIC_TABLE", where(g))


def qpack_representations(ctx, rid):
    """encoder and decoder agree on the field-line representations of RFC 9204 §4.5 (prefix widths, pattern bits, T bits, H flag)"""
    A = ctx.A
    enc = A.fn("wtransport_proto::qpack::Encoder::encode")
    with depth_limit(3):
        paths = walk(enc)
        got = set()
        prefix = None
        for p in paths:
            cs = _calls_with_cargs(p, r"Encoder::encode_(integer|string)$")
            if prefix is None and len(cs) >= 2:
                prefix = [(n, cg, const_val(e[2][0])) for n, cg, e in cs[:2]]
            which = []
            for a in path_sig(p)[0]:
                m = re.search(r"lookup_index\(.*\)\)? is (KeyValue|KeyOnly)$", a)
                if m:
                    which.append(m.group(1))
                elif re.search(r"lookup_index\(.*\) fails$", a):
                    which.append("None")
            body = [(n, cg, const_val(e[2][0])) for n, cg, e in cs[2:]]
            if which:
                got.add((which[-1], tuple(body)))
    want = {
        ("KeyValue", (("encode_integer", (6,), 0b11),)),
        ("KeyOnly", (("encode_integer", (4,), 0b0101), ("encode_string", (7,), 0))),
        ("None", (("encode_string", (3,), 0b10), ("encode_string", (7,), 0))),
    }
    ctx.check(rid, "encoder section prefix", prefix == [("encode_integer", (8,), 0), ("encode_integer", (7,), 0)],
              "Encoder::encode does not start with Required-Insert-Count <8>(0,0) and Delta-Base <7>(0,0): %s" % prefix, where(enc))
    ctx.check(rid, "encoder representations", got == want,
              "Encoder::encode field-line patterns differ from RFC 9204 §4.5.2/4.5.4/4.5.6 (indexed static 1 1 <6>, name-ref static 0 1 N=0 1 <4>, literal 0 0 1 N=0 <3>): %s" % sorted(got), where(enc))
    ctx.sample({"rule": rid, "encoder_patterns": sorted(str(x) for x in got)})
    dec = A.fn("wtransport_proto::qpack::Decoder::decode")
    with depth_limit(3):
        paths = walk(dec)
        rows = set()
        for p in paths:
            a = path_sig(p)[0]
            kind = [x.split(" is ")[-1] for x in a if "decode_field_line_type(" in x]
            tb = [x for x in a if x.startswith("BitAnd(") and ("!= 0" in x or "== 0" in x)]
            cs = tuple((n, cg) for n, cg, e in _calls_with_cargs(p, r"Decoder::decode_(integer|string)$")[2:])
            leaf = path_sig(p)[1]
            if kind:
                tbit = None
                if tb:
                    m = re.search(r",(\d+)\) (!=|==) 0$", tb[-1])
                    tbit = (int(m.group(1)), m.group(2)) if m else None
                outcome = "continue" if leaf == "continue" else ("Dynamic" if "DynamicNotSupported" in leaf else ("IndexNotfound" if "IndexNotfound" in leaf else "err"))
                rows.add((kind[-1], tbit, cs, outcome))
    need = {
        ("Indexed", (64, "!="), (("decode_integer", (6,)),), "continue"),
        ("Indexed", (64, "=="), (), "Dynamic"),
        ("IndexedPost", None, (), "Dynamic"),
        ("LiteralRefName", (16, "!="), (("decode_integer", (4,)), ("decode_string", (7,))), "continue"),
        ("LiteralRefName", (16, "=="), (), "Dynamic"),
        ("LiteralPostRefName", None, (), "Dynamic"),
        ("LiteralLitName", None, (("decode_string", (3,)), ("decode_string", (7,))), "continue"),
    }
    missing = need - rows
    ctx.check(rid, "decoder representations", not missing, "Decoder::decode lacks the RFC 9204 §4.5 rows %s (has %s)" % (sorted(str(x) for x in missing), sorted(str(x) for x in rows if x[3] in ("continue", "Dynamic"))), where(dec))
    okacc = {r for r in rows if r[3] == "continue"}
    ctx.check(rid, "decoder accepts only static/literal forms", okacc == {r for r in need if r[3] == "continue"}, "Decoder::decode accepts other representations: %s" % sorted(str(x) for x in okacc), where(dec))
    # Huffman flag = lowest flag bit; string length from the prefix integer
    ds = A.find1(r"^wtransport_proto::qpack::Decoder::decode_string$")
    with depth_limit(5):
        a = {x for p in walk(ds) for x in path_sig(p)[0] if x.startswith("BitAnd(ok(Decoder::decode_integer")}
    ctx.check(rid, "H flag", len(a) == 2 and all(re.match(r"^BitAnd\(ok\(Decoder::decode_integer\(.*\)\)\.0,1\) (==|!=) 1$", x) for x in a), "decode_string's Huffman flag is not `flags & 1`: %s" % sorted(a), where(ds))
    static_table_lookup_exact(ctx, rid)
    es = A.find1(r"^wtransport_proto::qpack::Encoder::encode_string$")
    with depth_limit(4):
        fl = {m.group(0) for p in walk(es) for x in path_sig(p)[0] for m in [re.search(r"encode_integer\(BitOr\(Shl\(flags,1\),\((0|1) as u8\)\)", x)] if m}
    ctx.check(rid, "encode_string flag = (flags<<1)|H", len(fl) == 2, "encode_string does not emit (flags << 1) | is_huffman: %s" % sorted(fl), where(es))


def prefix_integer_constants(ctx, rid):
    """encode_integer / decode_integer use the same mask (1<<N)-1 and 7-bit continuation groups (0x7f / 0x80 / +7)"""
    A = ctx.A
    d = A.find1(r"^wtransport_proto::qpack::Decoder::decode_integer$")
    e = A.find1(r"^wtransport_proto::qpack::Encoder::encode_integer$")
    with depth_limit(6):
        da = [x for p in walk(d) for x in path_sig(p)[0]]
        ea = [x for p in walk(e) for x in path_sig(p)[0]]
        dl = [path_sig(p)[1] for p in walk(d)]
    ctx.check(rid, "decode mask (1<<N)-1", any("SubWithOverflow(Shl(1,N),1).0) ==" in x or "SubWithOverflow(Shl(1,N),1).0) !=" in x for x in da), "decode_integer prefix mask is not (1 << N) - 1", where(d))
    ctx.check(rid, "encode mask (1<<N)-1", any(x.startswith("value < SubWithOverflow(Shl(1,N),1).0") for x in ea) and any(x.startswith("value >= SubWithOverflow(Shl(1,N),1).0") for x in ea), "encode_integer prefix test is not value < (1 << N) - 1", where(e))
    ctx.check(rid, "decode continuation bit 0x80", any(re.search(r",128\) (!=|==) 0$", x) for x in da), "decode_integer continuation test is not byte & 0x80", where(d))
    ctx.check(rid, "decode group mask 0x7f", any(",127)" in x for x in da), "decode_integer group mask is not 0x7f", where(d))
    ctx.check(rid, "encode continuation 0x80 / threshold 128", any(x == "rem@loop >= 128" for x in ea) and any(",128)]" in x for x in ea), "encode_integer does not emit `rem | 0x80` while rem >= 0x80", where(e))
    st = set()
    for fn in (d, e):
        for p in walk(fn):
            for ev in p.events:
                if ev[0] == "assert" and ev[1].startswith("Overflow(") and len(ev[2]) == 2:
                    st.add((fn.path.split("::")[-1], ev[1], canon(ev[2][1])))
    ctx.check(rid, "power += 7 / rem >>= 7", ("decode_integer", "Overflow(Add)", "7") in st and ("encode_integer", "Overflow(Shr)", "7") in st,
              "prefix-integer group width is not 7 on both sides: %s" % sorted(st), where(d))
    flags = [x for x in dl if x.startswith("return Result::Ok(((Shr(")]
    ctx.check(rid, "decode flags = byte >> N", bool(flags) and all(re.match(r"^return Result::Ok\(\(\(Shr\(.*,N\) as u8\),", x) for x in flags), "decode_integer flags are not byte >> N", where(d))


def preamble_writers(ctx, rid):
    """StreamHeader::write(_async) and Frame::write(_async) for the WebTransport kind emit exactly [varint kind.id(), varint session_id]"""
    A = ctx.A
    for path, asy in (("wtransport_proto::stream_header::StreamHeader::write", False), ("wtransport_proto::stream_header::StreamHeader::write_async::{closure#0}", True),
                      ("wtransport_proto::frame::Frame::write", False), ("wtransport_proto::frame::Frame::write_async::{closure#0}", True)):
        f = A.fn(path)
        ty = "StreamHeader" if "StreamHeader" in path else "Frame"
        seqs = set()
        for p in nonpanic(walk(f)):
            if p.leaf[0] != "return" or not path_sig(p)[1].startswith("return Result::Ok"):
                continue
            seq = []
            for e in event_strs(p):
                m = re.match(r"^(?:<.*? as )?(?:BytesWriter|BytesWriterAsync)>?::(put_varint|put_bytes|put_buffer)\((.*)\)$", e)
                if m:
                    arg = m.group(2)
                    what = "kind.id" if re.search(r"%sKind::id\(self\.kind\)" % ("Stream" if ty == "StreamHeader" else "Frame"), arg) else \
                           ("session_id" if "SessionId::into_varint(" in arg else ("payload.len" if "len(" in arg else ("payload" if "self.payload" in arg else "?")))
                    seq.append(m.group(1).replace("put_buffer", "put_bytes") + ":" + what)
            wt = any(re.search(r"%s::session_id\(self\) ok$" % ty, a) for a in path_sig(p)[0])
            seqs.add((wt, tuple(seq)))
        want = {(True, ("put_varint:kind.id", "put_varint:session_id"))}
        if ty == "StreamHeader":
            want.add((False, ("put_varint:kind.id",)))
        else:
            want.add((False, ("put_varint:kind.id", "put_varint:payload.len", "put_bytes:payload")))
        ctx.check(rid, "%s wire sequence" % path.replace("wtransport_proto::", ""), seqs == want, "%s emits %s, expected %s" % (path, sorted(seqs), sorted(want)), where(f))
    for ty, mod in (("StreamHeader", "stream_header"), ("Frame", "frame")):
        f = A.fn("wtransport_proto::%s::%s::new_webtransport" % (mod, ty))
        sg = [path_sig(p)[1] for p in nonpanic(walk(f))]
        kind = "StreamKind" if ty == "StreamHeader" else "FrameKind"
        ctx.check(rid, "%s::new_webtransport" % ty, len(sg) == 1 and re.match(r"^return %s::new\(%s::WebTransport,(Cow::Owned\(.*\),)?Option::Some\(session_id\)\)$" % (ty, kind), sg[0]) is not None,
                  "%s::new_webtransport does not build (WebTransport, Some(session_id)): %s" % (ty, sg), where(f))
        f = A.fn("wtransport_proto::%s::%s::session_id" % (mod, ty))
        sg = sorted(path_sig(p) for p in nonpanic(walk(f)))
        want = sorted([(("self.kind is WebTransport",), "return <impl bool>::then(1,closure:%s::{closure#0})" % ty), (("self.kind isnot WebTransport",), "return <impl bool>::then(0,closure:%s::{closure#0})" % ty)])
        ctx.check(rid, "%s::session_id" % ty, sg == want, "%s::session_id is not `matches!(kind, WebTransport).then(..)`: %s" % (ty, sg), where(f))


def _reader_seq(p):
    """wire reads of a path, as (primitive, remap?) in order"""
    out = []
    for e in p.events:
        if e[0] == "call" and re.search(r"(BytesReader|BytesReaderAsync)(>)?::(get_varint|get_bytes|get_buffer)$", e[1]):
            out.append(e[1].split("::")[-1])
    return out


def reader_sequences(ctx, rid):
    """Frame::read == Frame::read_async and StreamHeader::read == read_async as I/O sequences with the same
    branch atoms, the same cap constant/comparator and the same error constructor at the same position"""
    A = ctx.A
    cap = const_int(A, "wtransport_proto::frame::Frame::MAX_PARSE_PAYLOAD_ALLOWED")

    def norm(fn, is_async):
        rows = set()
        with depth_limit(6):
            for p in nonpanic(walk(fn)):
                atoms, leaf = path_sig(p)
                seq = tuple(_reader_seq(p))
                kind = None
                for a in atoms:
                    m = re.search(r"(FrameKind|StreamKind)::parse\(.*\)\)? is (WebTransport)$", a) or re.search(r"ok\((FrameKind|StreamKind)::parse\(.*\)\) (is|isnot) (WebTransport)$", a)
                    if m:
                        kind = "WT" if " is WebTransport" in a else "other"
                capa = [re.sub(r".* (<=|>) ", r"\1 ", a) for a in atoms if "MAX_PARSE_PAYLOAD_ALLOWED" in a]
                if "UnknownFrame" in leaf or "UnknownStream" in leaf:
                    out = "Err(Unknown)"
                elif "InvalidSessionId" in leaf or re.search(r"closure#[01]\},err\(SessionId::try_from_varint", leaf):
                    out = "Err(InvalidSessionId)"
                elif "PayloadTooBig" in leaf:
                    out = "Err(PayloadTooBig)"
                elif re.search(r"^return Result::Ok\(Option::None\)$", leaf):
                    out = "NeedMore"
                elif leaf.startswith("return Result::Ok("):
                    out = "Ok"
                elif is_async and re.search(r"^return Result::Err\((apply\(closure:.*,|[\w:<>#]+\()?err\(await\(", leaf):
                    out = "NeedMore"   # EOF / IO error of the source = the async form of `incomplete`
                else:
                    out = "?" + leaf[:60]
                rows.add((kind, seq, tuple(capa), out))
        return rows
    for ty, mod in (("Frame", "frame"), ("StreamHeader", "stream_header")):
        s = A.fn("wtransport_proto::%s::%s::read" % (mod, ty))
        a = A.fn("wtransport_proto::%s::%s::read_async::{closure#0}" % (mod, ty))
        rs = {(k, tuple(x.replace("get_bytes", "get_payload") for x in seq), c, o) for k, seq, c, o in norm(s, False)}
        ra = {(k, tuple(x.replace("get_buffer", "get_payload") for x in seq), c, o) for k, seq, c, o in norm(a, True)}
        ctx.check(rid, "%s::read == %s::read_async" % (ty, ty), rs == ra,
                  "%s::read and read_async disagree as I/O sequences: only-sync %s ; only-async %s" % (ty, sorted(str(x) for x in rs - ra), sorted(str(x) for x in ra - rs)), where(a))
        ctx.sample({"rule": rid, "decoder": ty, "rows": sorted(str(x) for x in rs)})
        unk = [r for r in rs | ra if r[3].startswith("?")]
        ctx.check(rid, "%s reader rows classified" % ty, not unk, "cannot decide: unclassified reader leaf %s" % unk, where(s))
        # WebTransport path consumes exactly [varint, varint]; nothing after
        wt = [r for r in rs if r[0] == "WT" and r[3] == "Ok"]
        ctx.check(rid, "%s WT path = [varint, varint]" % ty, bool(wt) and all(r[1] == ("get_varint", "get_varint") for r in wt), "%s::read WebTransport path does not consume exactly [varint, varint]: %s" % (ty, wt), where(s))
    ctx.check(rid, "payload cap constant", cap == SPEC["max_parse_payload"], "MAX_PARSE_PAYLOAD_ALLOWED is %d" % cap)


def poll_loops(ctx, rid):
    """GetVarint / GetBuffer / PutVarint / PutBuffer: the slice handed to poll_read/poll_write is exactly the
    unread/unwritten part of the field; offset advances by the returned count; completion iff offset reached the field length"""
    A = ctx.A
    P = "wtransport_proto::bytes::r#async::"
    spec = {
        "GetVarint<R>": ("AsyncRead::poll_read", {r"0\.\.1", r"self\.offset\.\.self\.varint_size"}, r"self\.varint_size"),
        "GetBuffer<R>": ("AsyncRead::poll_read", {r"self\.offset\.\."}, r"<impl \[T\]>::len\(self\.buffer\)"),
        "PutVarint<W>": ("AsyncWrite::poll_write", {r"self\.offset\.\.self\.varint_size"}, r"self\.varint_size"),
        "PutBuffer<W>": ("AsyncWrite::poll_write", {r"self\.offset\.\."}, r"<impl \[T\]>::len\(self\.buffer\)"),
    }
    for ty, (prim, ranges, limit) in spec.items():
        f = A.fn("<%s%s as std::future::Future>::poll" % (P, ty))
        ps = walk(f)
        seen = set()
        for p in ps:
            for e in event_strs(p):
                m = re.match(r"^%s\(self\.(reader|writer),cx,self\.buffer\[(.*)\]\)$" % re.escape(prim), e)
                if m:
                    seen.add(m.group(2))
                elif e.startswith(prim + "("):
                    seen.add("?" + e[:120])
        okr = bool(seen) and all(any(re.fullmatch(r, s) for r in ranges) for s in seen) and len(seen) == len(ranges)
        ctx.check(rid, "%s slice passed to %s" % (ty, prim.split("::")[-1]), okr,
                  "%s::poll hands %s to %s; expected exactly the remaining part of the field %s (anything wider reads/writes bytes that do not belong to the field)"
                  % (ty, sorted(seen), prim, sorted(ranges)), where(f))
        # advance by the returned count
        adv = set()
        for p in ps:
            if p.leaf[0] != "loop" and not (ty == "GetVarint<R>" and p.leaf[0] == "return"):
                continue
            for e in event_strs(p):
                m = re.match(r"^store self\.offset := (.*)$", e)
                if m:
                    adv.add(re.sub(r"%s\(.*?\)+ as Ready\)\.0\)" % re.escape(prim), "N)", m.group(1)))
        want = {"AddWithOverflow(self.offset,ok((N)).0"} | ({"1"} if ty == "GetVarint<R>" else set())
        ctx.check(rid, "%s offset advance" % ty, adv == want, "%s::poll advances offset by %s, expected `offset += returned count`%s" % (ty, sorted(adv), " and `offset = 1` after the first byte" if ty == "GetVarint<R>" else ""), where(f))
        # completion
        done = [path_sig(p) for p in nonpanic(ps) if re.match(r"^return Poll::Ready\(Result::Ok\(", path_sig(p)[1])]
        okd = bool(done) and all(any(re.fullmatch(r"self\.offset >= %s" % limit, a) for a in at) for at, _ in done)
        ctx.check(rid, "%s completes iff offset >= field length" % ty, okd, "%s::poll completes on a path without `offset >= %s`: %s" % (ty, limit, [a[-2:] for a, _ in done]), where(f))
    f = A.fn("wtransport_proto::bytes::r#async::PutVarint::new")
    sg = [path_sig(p)[1] for p in nonpanic(walk(f))]
    ctx.check(rid, "PutVarint::new size from the encoder", len(sg) == 1 and re.search(r",0,BufferWriter::offset\(BufferWriter::new\(", sg[0]) is not None, "PutVarint::new does not take varint_size from the number of bytes octets wrote: %s" % sg, where(f))


def settings_with_frame_table(ctx, rid):
    """Settings::with_frame: known->stored once, duplicate/reserved->H3_SETTINGS_ERROR, unknown->ignored, truncated->H3_FRAME_ERROR"""
    f = ctx.A.fn("wtransport_proto::settings::Settings::with_frame")
    rows = [
        {"name": "end of payload->Ok", "atoms": [r"^BufferReader::capacity\(.*\) <= 0$"], "leaf": r"^return Result::Ok\(Settings::new\(\)\)$"},
        {"name": "known, first->stored", "atoms": [r" is Vacant$"], "events": [r"^VacantEntry::insert\("], "leaf": r"^continue$"},
        {"name": "known, duplicate->H3_SETTINGS_ERROR", "atoms": [r" is Occupied$"], "leaf": r"^return Result::Err\(ErrorCode::Settings\)$"},
        {"name": "reserved->H3_SETTINGS_ERROR", "atoms": [r" is ReservedSetting$"], "leaf": r"^return Result::Err\(ErrorCode::Settings\)$"},
        {"name": "unknown->ignored", "atoms": [r" is UnknownSetting$"], "not_events": [r"insert\("], "leaf": r"^continue$"},
        {"name": "truncated->H3_FRAME_ERROR", "atoms": [r"get_varint\(.*\) fails$"], "leaf": r"^return Result::Err\(ErrorCode::Frame\)$"},
    ]
    match_table(ctx, rid, f, walk(f), rows, "Settings::with_frame")


# ------------------------------------------------------------------ Headers map: store / lookup identity

def headers_store_identity(ctx, rid):
    """`Headers::insert` stores (key, value) unchanged and `Headers::get` looks the key up unchanged.

    Every guard evaluated on a field name before it is stored (reserved names in `SessionRequest::insert`,
    `ConnectOptions::add_header`, `SessionResponse::add`) and every lookup by exact name (`:method`, `:status`, ...) relies on
    the map key being the caller's string: a transformation between guard and store (case folding, trimming) lets a variant
    spelling pass the guard and then collide with / overwrite the reserved entry."""
    f = ctx.A.fn("wtransport_proto::headers::Headers::insert")
    ps = nonpanic(walk(f))
    evs = [event_strs(p) for p in ps]
    want = ["ToString::to_string(key)", "ToString::to_string(value)",
            "HashMap::insert(self.0,ToString::to_string(key),ToString::to_string(value))"]
    ctx.check(rid, "Headers::insert stores (key,value) unchanged", len(ps) == 1 and evs[0] == want,
              "Headers::insert no longer stores exactly (key.to_string(), value.to_string()): a field name/value is transformed "
              "after the callers' guards were evaluated on it: %s" % evs, where(f))
    f = ctx.A.fn("wtransport_proto::headers::Headers::get")
    ps = nonpanic(walk(f))
    ls = [path_sig(p)[1] for p in ps]
    ctx.check(rid, "Headers::get looks the key up unchanged",
              sorted(ls) == ["return Option::None", "return Option::Some(String::as_str(ok(HashMap::get(self.0,AsRef::as_ref(key)))))"],
              "Headers::get is no longer `self.0.get(key.as_ref()).map(String::as_str)`: %s" % ls, where(f))
    # the map type: exact-match keys (a case-insensitive or normalising map type would change the guard semantics as well)
    adt = ctx.A.adt("wtransport_proto::headers::Headers")
    ty = adt["variants"][0]["fields"][0]["ty"]
    ctx.check(rid, "Headers is HashMap<String,String>", re.search(r"HashMap<(std::string::)?String, (std::string::)?String", ty) is not None,
              "Headers' inner map type changed: %s" % ty, adt["at"]["sp"])


# ------------------------------------------------------------------ SessionRequest::new: what the five fields are built from

def request_from_url(ctx, rid):
    """`SessionRequest::new(url)`: on every accepting path the header set is exactly the five pseudo-headers with
    :authority == url.authority() and :path == url.path() ++ ("?" ++ query if the URL has a query) — stated in the string
    algebra of strexpr.py, so any spelling of the same concatenation is accepted and anything else (fragment, userinfo,
    a dropped or re-encoded query) is reported."""
    import strexpr
    A = ctx.A
    f = A.fn("wtransport_proto::session::SessionRequest::new")
    with depth_limit(None):
        ps = nonpanic(walk(f))
    acc = [p for p in ps if p.leaf[0] == "return" and canon(p.leaf[1]).startswith("Result::Ok(")]
    ctx.check(rid, "SessionRequest::new has an accepting path", bool(acc), "SessionRequest::new never returns Ok", where(f))
    U = None
    for p in acc:
        pairs = {}

        def find(e):
            if isinstance(e, tuple):
                if e and e[0] == "agg" and e[1] == "tuple" and len(e[5]) == 2:
                    k = strexpr.parts(A, e[5][0])
                    if len(k) == 1 and k[0][0] == "lit":
                        pairs.setdefault(k[0][1], []).append(e[5][1])
                        return
                for x in e:
                    find(x)
        find(p.leaf)
        ctx.check(rid, "request fields == the five pseudo-headers", sorted(pairs) == sorted(SPEC["reserved_headers"]),
                  "SessionRequest::new builds fields %s, expected exactly %s" % (sorted(pairs), sorted(SPEC["reserved_headers"])), where(f))
        for k, v in SPEC["request_pseudo"].items():
            got = [strexpr.show(strexpr.parts(A, x)) for x in pairs.get(k, [])]
            ctx.check(rid, "%s == '%s'" % (k, v), got == [repr(v)], "SessionRequest::new sets %s to %s, expected the literal '%s'" % (k, got, v), where(f))
        # the parsed URL the request is built from: subject of the https guard
        urls = {m.group(1) for a in path_sig(p)[0] for m in [re.match(r"^!<impl PartialEq<&B> for &A>::ne\(Url::scheme\((.*)\),'https'\)$", a)] if m}
        if not ctx.check(rid, "accepting path is guarded by url.scheme() == 'https'", len(urls) == 1,
                         "accepting path of SessionRequest::new is not guarded by `url.scheme() == \"https\"` (guards: %s)" % list(path_sig(p)[0]), where(f)):
            continue
        U = urls.pop()
        au = [strexpr.parts(A, x) for x in pairs.get(":authority", [])]
        ctx.check(rid, ":authority == url.authority()", au == [(("val", "Url::authority(%s)" % U),)],
                  ":authority is built as %s, expected Url::authority(%s)" % ([strexpr.show(x) for x in au], U), where(f))
        pa = [strexpr.parts(A, x) for x in pairs.get(":path", [])]
        q = "Url::query(%s)" % U
        want_comb = (("val", "Url::path(%s)" % U), ("opt", q, (("lit", "?"), strexpr.IT), ()))
        want_some = (("val", "Url::path(%s)" % U), ("lit", "?"), ("val", "ok(%s)" % q))
        want_none = (("val", "Url::path(%s)" % U),)
        atoms = set(path_sig(p)[0])
        if ("%s ok" % q) in atoms:
            want = [want_some, want_comb]
        elif ("%s fails" % q) in atoms:
            want = [want_none, want_comb]
        else:
            want = [want_comb]
        ctx.check(rid, ":path == url.path() ++ ('?' ++ query)?", len(pa) == 1 and pa[0] in want,
                  ":path is built as %s, expected %s" % ([strexpr.show(x) for x in pa], strexpr.show(want[0])), where(f))
    return U


# ------------------------------------------------------------------ ConnectStream::run: how the session stream's end is attributed

def connect_stream_run_table(ctx, rid):
    """decision table of `ConnectStream::run`: which DriverError each way of ending the session (CONNECT) stream produces"""
    A = ctx.A
    fn = A.find1(r"^wtransport::driver::streams::connect::ConnectStream::run::\{closure#0\}$")
    RF = r"await\(<impl .*?>::read_frame\(ok\(Option::as_mut\(self\.stream\)\)\)\)"
    CAP = r"Capsule::with_frame\(ok\(%s\)\)" % RF
    CL = r"CloseWebTransportSession::with_capsule\(ok\(%s\)\)" % CAP
    rows = [
        {"name": "no stream->pending", "atoms": [r"^Option::as_mut\(self\.stream\) fails$"], "leaf": r"^pending$"},
        {"name": "close capsule->ApplicationClosed(code,reason) + reset NoError",
         "atoms": [r" is Data$", r"^%s ok$" % CAP, r"^%s ok$" % CL],
         "events": [r"::reset\(Option::unwrap\(Option::take\(self\.stream\)\),ErrorCode::to_code\(ErrorCode::NoError\)\)$"],
         "leaf": r"^return DriverError::ApplicationClosed\(ApplicationClose\(CloseWebTransportSession::error_code\(ok\(%s\)\),Vec::into_boxed_slice\(<impl \[T\]>::to_vec\(<impl str>::as_bytes\(CloseWebTransportSession::reason\(ok\(%s\)\)\)\)\)\)\)$" % (CL, CL)},
        {"name": "malformed capsule->Proto(code)", "atoms": [r"^%s fails$" % CL], "leaf": r"^return DriverError::Proto\(err\(%s\)\)$" % CL},
        {"name": "unknown capsule->skip", "atoms": [r"^%s fails$" % CAP], "leaf": r"^continue$"},
        {"name": "non-DATA frame->skip", "atoms": [r" isnot Data$"], "leaf": r"^continue$"},
        {"name": "H3(code)->Proto(code)", "atoms": [r" is H3$"], "leaf": r"^return DriverError::Proto\(\(err\(%s\) as H3\)\.0\)$" % RF},
        {"name": "clean FIN->ApplicationClosed(0,[])", "atoms": [r" is ImmediateFin$"],
         "leaf": r"^return DriverError::ApplicationClosed\(ApplicationClose\(VarInt::from_u32\(0\),\(Box::new\(\[\]\) as std::boxed::Box<\[u8\]>\)\)\)$"},
        {"name": "FIN inside frame->ClosedCriticalStream", "atoms": [r" is UnexpectedFin$"], "leaf": r"^return DriverError::Proto\(ErrorCode::ClosedCriticalStream\)$"},
        {"name": "reset->ClosedCriticalStream", "atoms": [r" is Reset$"], "leaf": r"^return DriverError::Proto\(ErrorCode::ClosedCriticalStream\)$"},
        {"name": "NotConnected", "atoms": [r" is NotConnected$"], "leaf": r"^return DriverError::NotConnected$"},
    ]
    paths = walk(fn)
    match_table(ctx, rid, fn, paths, rows, "ConnectStream::run")
    ctx.sample({"rule": rid, "fn": fn.path, "table": [[list(path_sig(p)[0])[-3:], path_sig(p)[1][:200]] for p in paths]})


# ------------------------------------------------------------------ QUIC flow-control knobs set by the library itself

FLOW_KNOBS = {
    "receive_window": "connection-level receive window: any finite value is shared by all streams, so unread data on accepted streams (k x stream window) exhausts it and no other stream, not even a preamble or the close capsule, can make progress",
    "stream_receive_window": "per-stream receive window: with the connection window it decides how many unread streams exhaust the shared credit",
    "send_window": "connection-level send window: shared by all streams of the sender",
    "max_concurrent_bidi_streams": "stream-count credit: stalled streams hold it until they finish",
    "max_concurrent_uni_streams": "stream-count credit: stalled streams hold it until they finish",
}


def library_flow_control(ctx, rid):
    """who-may-call: the library itself never narrows QUIC flow control — it passes `quinn::TransportConfig::default()` (connection window
    unlimited) or the application's own config through, and sets only the reviewed non-flow-control knobs.  Positive control: the same
    matcher must see the reviewed `TransportConfig` calls that exist today."""
    A = ctx.A
    seen = {}
    for fn in A.fn_list:
        if not fn.body or fn.crate != "wtransport" or "::tests::" in fn.path:
            continue
        for bb in fn.body["blocks"]:
            t = bb["t"]
            if t["k"] == "call":
                n = t["f"].get("resolved") or t["f"].get("path") or ""
                m = re.search(r"(?:^|[ <])quinn(?:_proto)?::(?:config::)?(?:transport::)?TransportConfig(?: as [^>]*>)?::(\w+)$", n)
                if m:
                    seen.setdefault(m.group(1), []).append((fn, t))
    ctx.floor(rid, "TransportConfig call sites seen (positive control)", sum(len(v) for v in seen.values()), 6)
    for knob, why in FLOW_KNOBS.items():
        sites = seen.get(knob, [])
        bad = []
        for fn, t in sites:
            args = t.get("args", [])
            unlimited = len(args) >= 2 and "VarInt::MAX" in json.dumps(args[1])
            if not (knob == "receive_window" and unlimited):
                bad.append(fn)
        ctx.check(rid, "library does not set TransportConfig::%s" % knob, not bad,
                  "%s sets quinn TransportConfig::%s itself (%s)" % (", ".join(sorted({f.path for f in bad})), knob, why),
                  bad[0].at if bad else "?", key="library sets TransportConfig::%s" % knob)
    ctx.sample({"rule": rid, "transport_config_calls": {k: sorted({f.path.replace("wtransport::", "") for f, _ in v}) for k, v in seen.items()}})


# ------------------------------------------------------------------ worker select loop: acceptor branches

STREAM_VALUE_TYPES = (
    "wtransport::driver::streams::Stream", "wtransport::driver::streams::QuicRecvStream", "wtransport::driver::streams::QuicSendStream",
    "wtransport::datagram::Datagram", "wtransport::stream::RecvStream", "wtransport::stream::SendStream", "wtransport::stream::BiStream",
    "quinn::RecvStream", "quinn::SendStream", "quinn::recv_stream::RecvStream", "quinn::send_stream::SendStream",
)


def acceptor_branches(ctx, rid, idx=None):
    """Worker::accept_uni / accept_bi / accept_datagram are branch futures of the worker's select! loop and are dropped whenever another
    branch wins.  They must therefore (a) await nothing that carries stream-read progress and (b) own no pulled stream / datagram across a
    later suspension: whatever has been accepted is handed to a spawned task (or a reserved slot) before the next await."""
    from corowit import CoroIndex
    from rules.C05 import short_chain
    idx = idx or CoroIndex(ctx.A)
    for name in ("accept_uni", "accept_bi", "accept_datagram"):
        c = idx.find1(r"^wtransport::driver::worker::Worker::%s::\{closure#0\}$" % name)
        res = idx.classify({"k": "cor", "did": c.path, "local": True}, "pcf")
        ctx.check(rid, "Worker::%s not PCF" % name, not res,
                  "Worker::%s (a select-loop branch, dropped whenever another branch wins) awaits %s: bytes already read from the accepted stream are lost with it"
                  % (name, [(k, short_chain(x)) for k, x in res][:3]), c.fn.at)
        for s in c.susp:
            owned = [nm for nm, ty in s.held_types() if idx.contains(ty, lambda d: d in STREAM_VALUE_TYPES, through_local_adts=False)]
            ctx.check(rid, "Worker::%s|susp%d owns no pulled item" % (name, s.variant), not owned,
                      "Worker::%s owns %s across an await inside the select loop: the accepted stream / datagram is dropped when another branch wins"
                      % (name, owned), s.where)
    return idx


# ------------------------------------------------------------------ Capsule::with_frame

def capsule_with_frame_table(ctx, rid):
    """Capsule::with_frame reads exactly [varint type, varint len, len bytes]: a known capsule yields (kind, payload); an unknown type or a
    short value yields None *after the same reads* (nothing of an unknown capsule is re-interpreted)"""
    A = ctx.A
    # Capsule::with_frame: [varint type, varint len, bytes len] over the frame payload
    fn = A.fn("wtransport_proto::capsule::Capsule::with_frame")
    PAY = r"Frame::payload\(frame\)"
    GV = r"<&\[u8\] as BytesReader>::get_varint\(%s\)" % PAY
    GB = r"<&\[u8\] as BytesReader>::get_bytes\(%s,\(VarInt::into_inner\(ok\(%s\)\) as usize\)\)" % (PAY, GV)
    rows = [
        {"name": "complete->Some(kind,payload)", "atoms": [r"^%s ok$" % GV, r"^CapsuleKind::parse\(ok\(%s\)\) ok$" % GV, r"^%s ok$" % GB],
         "leaf": r"^return Option::Some\(Capsule\(ok\(CapsuleKind::parse\(ok\(%s\)\)\),ok\(%s\)\)\)$" % (GV, GB)},
        {"name": "short/unknown->None", "atoms": [r" fails$"], "leaf": r"^return Option::None$"},
    ]
    ps = walk(fn)
    match_table(ctx, rid, fn, ps, rows, "Capsule::with_frame")
    full = [p for p in nonpanic(ps) if path_sig(p)[1].startswith("return Option::Some")]
    seq = [e for p in full for e in event_strs(p) if e.startswith("<&[u8] as BytesReader>::")]
    ctx.check(rid, "Capsule::with_frame wire sequence", len(full) == 1 and len(seq) == 3 and "get_varint" in seq[0] and "get_varint" in seq[1] and "get_bytes" in seq[2],
              "Capsule::with_frame does not read [varint type, varint len, bytes len]: %s" % seq, where(fn))



# ------------------------------------------------------------------ QPACK encoder: static-table lookup is exact

INEXACT_STR = re.compile(r"<impl str>::(eq_ignore_ascii_case|to_ascii_lowercase|to_ascii_uppercase|to_lowercase|to_uppercase|starts_with|ends_with|contains|"
                         r"trim|trim_start|trim_end|trim_matches|strip_prefix|strip_suffix|find|matches)$|<impl \[u8\]>::eq_ignore_ascii_case$|<impl u8>::eq_ignore_ascii_case$")


def static_table_lookup_exact(ctx, rid):
    """`StaticTable::lookup_index(name, value)` decides whether the encoder replaces a field (or its name) by a static-table index.  The
    decoder returns the table's spelling, so the replacement is value-preserving only if the comparison is exact string equality:
    (1) no case-folding / prefix / trimming predicate anywhere in the lookup family; (2) `KeyValue` (name and value indexed) is returned
    only under a true exact `==` on the value, `KeyOnly` only under its negation."""
    A = ctx.A
    fam = [f for f in A.fn_list if f.body and f.path.startswith("wtransport_proto::qpack::StaticTable::lookup_index")]
    ctx.floor(rid, "lookup_index family", len(fam), 1)
    bad = set()
    kv = ko = 0
    okv = oko = True
    for f in fam:
        for p in nonpanic(walk(f)):
            for e in p.events:
                if e[0] == "call" and INEXACT_STR.search(e[1]):
                    bad.add(e[1].split("::")[-1])
            if p.leaf[0] != "return":
                continue
            leaf = canon(p.leaf[1])
            at = path_sig(p)[0]
            eqv = [a for a in at if re.match(r"^!?<impl PartialEq<.*>::eq\(.*value.*\)$|^!?<impl PartialEq<.*>::ne\(.*value.*\)$|^!?<str as PartialEq>::(eq|ne)\(.*value.*\)$", a)]
            pos = [a for a in eqv if (not a.startswith("!")) == ("::eq(" in a)]
            neg = [a for a in eqv if (a.startswith("!")) == ("::eq(" in a)]
            if "LookupIndexFound::KeyValue(" in leaf:
                kv += 1
                okv = okv and bool(pos) and not neg
            if "LookupIndexFound::KeyOnly(" in leaf:
                ko += 1
                oko = oko and bool(neg) and not pos
    ctx.check(rid, "static-table lookup uses exact string comparison only", not bad,
              "StaticTable::lookup_index compares with %s: a field whose name/value differs from a static-table entry only by case (or prefix) is sent as "
              "that entry's index, and the peer decodes the table's spelling instead of the caller's" % sorted(bad), fam[0].at if fam else "?",
              key="lookup_index inexact comparison")
    ctx.check(rid, "KeyValue only under value == entry.value", kv > 0 and okv, "lookup_index returns KeyValue on a path without a true exact `==` on the value", fam[0].at if fam else "?")
    ctx.check(rid, "KeyOnly only under value != entry.value", ko > 0 and oko, "lookup_index returns KeyOnly on a path without a false exact `==` on the value", fam[0].at if fam else "?")


# ------------------------------------------------------------------ QuicSendStream::finish

def finish_table(ctx, rid):
    """`finish()` issues quinn's finish() and then waits for `stopped()`: Ok only when the peer has acknowledged everything sent (Closed),
    any other outcome is returned as the error it is.  Returning before that lets the application close the connection while data / FIN
    are still buffered (the receiver then sees a truncated stream instead of the bytes followed by end-of-stream)."""
    A = ctx.A
    f = A.find1(r"^wtransport::driver::streams::QuicSendStream::finish::\{closure#0\}$")
    ST = r"await\(QuicSendStream::stopped\(self\)\)"
    rows = [
        {"name": "Closed->Ok", "atoms": [r"^%s is Closed$" % ST], "events": [r"^SendStream::finish\(self\.0\)$"], "leaf": r"^return Result::Ok\(\(\)\)$"},
        {"name": "otherwise->Err(that)", "atoms": [r"^%s isnot Closed$" % ST], "events": [r"^SendStream::finish\(self\.0\)$"], "leaf": r"^return Result::Err\(%s\)$" % ST},
    ]
    ps = walk(f)
    match_table(ctx, rid, f, ps, rows, "QuicSendStream::finish")
    # finish() is called before stopped() is awaited
    for p in nonpanic(ps):
        ev = event_strs(p)
        i1 = [i for i, e in enumerate(ev) if e.startswith("SendStream::finish(")]
        i2 = [i for i, e in enumerate(ev) if e.startswith("await QuicSendStream::stopped(")]
        ctx.check(rid, "finish before stopped|%s" % path_sig(p)[1][:30], bool(i1) and bool(i2) and i1[0] < i2[0], "finish(): quinn finish() is not issued before awaiting stopped()", where(f))


# ------------------------------------------------------------------ the worker loop never parks outside its select!

def worker_loop_never_parks(ctx, rid, idx=None):
    """Worker::run_impl's loop suspends only at its select!: the branch handlers are synchronous and use non-blocking queue operations.
    A handler that awaits (a full queue, a lock) parks the one task that observes every termination cause and serves every stream."""
    from corowit import CoroIndex, ty_short
    from rulelib import event_strs
    A = ctx.A
    idx = idx or CoroIndex(A)
    w = idx.find1(r"^wtransport::driver::worker::Worker::run_impl::\{closure#0\}$")
    cfg = w.fn.cfg
    in_loop = [s for s in w.susp if s.yield_bb is not None and any(
        s.yield_bb in c and len(c) > 12 for c in cfg.sccs)]
    nonsel = [s for s in in_loop if not s.is_select]
    ctx.check(rid, "run_impl loop suspensions", len(in_loop) >= 1 and not nonsel,
              "Worker::run_impl suspends inside its loop outside the select!: %s" % [(s.where, ty_short(s.awaitee["ty_j"]) if s.awaitee else None) for s in nonsel], w.fn.at)
    unm = [s for s in w.susp if s.yield_bb is None]
    ctx.check(rid, "run_impl suspensions matched", not unm, "cannot decide: unmatched suspension points in run_impl", w.fn.at)
    for h in ("handle_uni_h3_stream", "handle_bi_h3_stream", "handle_remote_settings"):
        f = A.fn("wtransport::driver::worker::Worker::%s" % h)
        ctx.check(rid, "%s is synchronous" % h, not f.is_coroutine and not f.raw.get("async"),
                  "Worker::%s became async: a blocking send/lock in a handler stalls every stream" % h, f.at)
        # and it only uses non-blocking sends
        evs = [e for p in nonpanic(walk(f)) for e in event_strs(p)]
        blocking = [e for e in evs if re.match(r"^(Sender|BiChannelEndpoint)::send\(", e) or "blocking_send" in e or "blocking_lock" in e]
        ctx.check(rid, "%s non-blocking" % h, not blocking, "Worker::%s uses a blocking queue operation: %s" % (h, blocking[:2]), f.at)



# ------------------------------------------------------------------ the set of pinned certificate hashes

def hash_pin_set(ctx, rid):
    """A certificate is accepted by pinning iff its hash is in the configured set — for every way the set was built (`new`, then any number of
    `add`).  Structural condition: the container has order-independent membership (a set type), `new` collects exactly the given hashes,
    `add` inserts through the set's own insert, and the verifier's lookup is the set's `contains` on SHA-256(leaf).  (A sorted-vector +
    binary-search representation would make acceptance depend on the order of `add` calls.)"""
    A = ctx.A
    adt = A.adt("wtransport::tls::client::ServerHashVerification")
    fty = {x["name"]: x["ty"] for x in adt["variants"][0]["fields"]}
    ctx.check(rid, "pinned hashes are kept in a set", re.match(r"^std::collections::(BTreeSet|HashSet)<wtransport::tls::Sha256Digest", fty.get("hashes", "")) is not None,
              "ServerHashVerification keeps its pins in %s: membership must not depend on insertion order (BTreeSet / HashSet)" % fty.get("hashes"), adt["at"]["sp"],
              key="pinned hashes container")
    g = A.find1(r"^wtransport::tls::client::ServerHashVerification::new$")
    sg = [path_sig(p)[1] for p in nonpanic(walk(g))]
    ctx.check(rid, "ServerHashVerification::new keeps exactly the given hashes", len(sg) == 1 and re.match(r"^return ServerHashVerification\(<(BTreeSet|HashSet)<T(, S)?> as FromIterator<T>>::from_iter\(hashes\),default_crypto_provider\(\)\.signature_verification_algorithms\)$", sg[0]) is not None,
              "ServerHashVerification::new changed: %s" % sg, where(g))
    g = A.find1(r"^wtransport::tls::client::ServerHashVerification::add$")
    ev = [event_strs(p) for p in nonpanic(walk(g))]
    ctx.check(rid, "ServerHashVerification::add inserts into the set", len(ev) == 1 and ev[0] == ["BTreeSet::insert(self.hashes,digest)"] or (len(ev) == 1 and ev[0] == ["HashSet::insert(self.hashes,digest)"]),
              "ServerHashVerification::add is not `self.hashes.insert(digest)`: %s" % ev, where(g))
    v = A.fn("<wtransport::tls::client::ServerHashVerification as rustls::client::danger::ServerCertVerifier>::verify_server_cert")
    acc = [p for p in nonpanic(walk(v)) if "ServerCertVerified::assertion()" in path_sig(p)[1]]
    okl = bool(acc) and all(any(re.match(r"^(BTreeSet|HashSet)::contains\(self\.hashes,Sha256Digest\(<D as Digest>::digest\((<CertificateDer as AsRef<\[u8\]>>::as_ref\(end_entity\)|end_entity)\)\)\)$", a) for a in path_sig(p)[0]) for p in acc)
    ctx.check(rid, "lookup = set membership of SHA-256(leaf)", okl, "verify_server_cert does not accept exactly under `self.hashes.contains(&Sha256(end_entity))`", where(v))


# ------------------------------------------------------------------ driver-level datagram encode / decode

def driver_datagram_tables(ctx, rid):
    """wtransport::datagram::Datagram: `read` keeps the QUIC bytes, computes the payload offset from what the proto parser consumed
    (len(quic) - len(payload)) and converts the quarter stream id back to the session id; `write` allocates header_size(quarter id) +
    payload.len() and writes varint(quarter id of the session) followed by the payload; accessors slice from the stored offset."""
    from rulelib import apply_closure
    A = ctx.A
    # driver side
    f = A.fn("wtransport::datagram::Datagram::read")
    H3 = r"ok\(Datagram::read\(quic_dgram\)\)"
    rows = [
        {"name": "parse error passthrough", "atoms": [r"^Datagram::read\(quic_dgram\) fails$"], "leaf": r"^return Result::Err\(err\(Datagram::read\(quic_dgram\)\)\)$"},
        {"name": "ok->(same bytes, len(quic)-len(payload), qid.into_session_id())", "atoms": [r"^Datagram::read\(quic_dgram\) ok$"],
         "leaf": r"^return Result::Ok\(datagram::Datagram\(quic_dgram,SubWithOverflow\(Bytes::len\(quic_dgram\),<impl \[T\]>::len\(Datagram::payload\(%s\)\)\)\.0,QStreamId::into_session_id\(Datagram::qstream_id\(%s\)\)\)\)$" % (H3, H3)},
    ]
    match_table(ctx, rid, f, walk(f), rows, "driver Datagram::read")
    f = A.fn("wtransport::datagram::Datagram::write")
    H = r"(?:datagram::)?Datagram\(QStreamId::from_session_id\(session_id\),payload\)"
    BUF = r"Vec::into_boxed_slice\(from_elem\(0,Datagram::write_size\(%s\)\)\)" % H
    QD = r"<Bytes as From<Box<\[u8\]>>>::from\(%s\)" % BUF
    ps = nonpanic(walk(f))
    ls = [path_sig(p)[1] for p in ps]
    want = r"^return datagram::Datagram\(%s,SubWithOverflow\(Bytes::len\(%s\),<impl \[T\]>::len\(payload\)\)\.0,session_id\)$" % (QD, QD)
    ctx.check(rid, "driver Datagram::write", len(ls) == 1 and re.match(want, ls[0]) is not None, "driver Datagram::write changed shape: %s" % ls, where(f))
    evs = [e for p in ps for e in event_strs(p)]
    ctx.check(rid, "driver Datagram::write serialises into the exact-size buffer", any(re.match(r"^Datagram::write\(%s,\(?%s[.) ]" % (H, BUF), e) for e in evs),
              "driver Datagram::write does not call proto Datagram::write into the buffer of write_size bytes", where(f))
    for nm, fld in (("payload", r"^return Bytes::slice\(self\.quic_dgram,RangeFrom\(self\.payload_offset\)\)$"),
                    ("session_id", r"^return self\.session_id$"), ("into_quic_bytes", r"^return self\.quic_dgram$")):
        f = A.fn("wtransport::datagram::Datagram::%s" % nm)
        ls = [path_sig(p)[1] for p in nonpanic(walk(f))]
        ctx.check(rid, "driver Datagram::%s" % nm, len(ls) == 1 and re.match(fld, ls[0]) is not None, "Datagram::%s changed: %s" % (nm, ls), where(f))
    f = A.fn("<wtransport::datagram::Datagram as std::ops::Deref>::deref")
    ls = [path_sig(p)[1] for p in nonpanic(walk(f))]
    ctx.check(rid, "Deref slices from payload_offset", ls == ["return self.quic_dgram[self.payload_offset..]"], "Deref for Datagram changed: %s" % ls, where(f))

    STOP = re.compile(r"^wtransport_proto::(varint::VarInt|ids::(QStreamId|SessionId|StreamId))::|^quinn|^<wtransport_proto::bytes::BufferWriter")
    HDR = "VarInt::size(QStreamId::into_varint(QStreamId::from_session_id(%s)))"
    f = A.fn("wtransport::datagram::Datagram::write")
    ps = nonpanic(walk(f, inline=STOP))
    evs = [e for p in ps for e in event_strs(p)]
    QID = "QStreamId::into_varint(QStreamId::from_session_id(session_id))"
    alloc = sorted({e for e in evs if e.startswith("from_elem(")})
    ctx.check(rid, "bytes allocated for a datagram == header size + payload length",
              alloc == ["from_elem(0,AddWithOverflow(%s,<impl [T]>::len(payload)).0)" % (HDR % "session_id")],
              "driver Datagram::write allocates %s, expected header_size(quarter id) + payload.len()" % alloc, where(f), key="datagram buffer size normal form")
    puts = sorted({e for e in evs if e.startswith("<BufferWriter as BytesWriter>::put_varint(")})
    ctx.check(rid, "the header written is the varint of the quarter stream id", len(puts) == 1 and puts[0].endswith("," + QID + ")"),
              "driver Datagram::write writes %s, expected put_varint(.., %s)" % (puts, QID), where(f), key="datagram header normal form")


# ------------------------------------------------------------------ VarInt::size as a partition of the value range

def varint_size_table(ctx, rid):
    """`VarInt::size()` == the RFC 9000 §16 table, stated as the partition of 0..=2^62-1 it induces: every path that returns a constant
    size constrains the value to an interval (derived from the path's comparisons, whatever their spelling: `<=`, `<`, ranges, match arms);
    the intervals must be exactly [0,63]->1, [64,16383]->2, [16384,2^30-1]->4, [2^30,..]->8."""
    import intervals
    A = ctx.A
    V = SPEC["varint"]
    f = A.fn("wtransport_proto::varint::VarInt::size")
    got = []
    subj = None
    for p in nonpanic(walk(f)):
        if p.leaf[0] != "return":
            continue
        v = const_val(p.leaf[1])
        if not isinstance(v, int):
            got.append(("?", canon(p.leaf[1])))
            continue
        # the compared expression: the VarInt's inner value
        xs = [a[2] for a in p.atoms if a[0] == "cmp" and intervals.cval(a[3]) is not None] + [a[3] for a in p.atoms if a[0] == "cmp" and intervals.cval(a[2]) is not None] \
            + [a[1] for a in p.atoms if a[0] == "eq"]
        xs += [e[2][1] for a in p.atoms if a[0] == "cond" for e in [a[1]] if isinstance(e, tuple) and e[0] == "call" and "contains" in e[1] and len(e[2]) == 2]
        if not xs:
            got.append((None, None, v))
            continue
        x = xs[0]
        lo, hi = intervals.bounds(p.atoms, x)
        got.append((lo or 0, hi, v))
    want = []
    prev = 0
    for ub, sz in sorted(V["size_thresholds"]):
        want.append((prev, ub, sz))
        prev = ub + 1
    norm = sorted({(lo, (hi if hi is not None and hi < V["max"] else V["max"]), sz) for lo, hi, sz in got
                   if lo != "?" and lo is not None and not (hi is not None and hi < lo)})   # empty intervals = infeasible paths of a range match
    ctx.check(rid, "VarInt::size partition", norm == sorted(want) and not any(g[0] == "?" for g in got),
              "VarInt::size() maps value ranges %s to sizes; RFC 9000 §16 requires %s" % (norm, sorted(want)), where(f), key="VarInt::size partition")


# ------------------------------------------------------------------ adapters between quinn streams and the proto crate's AsyncRead / AsyncWrite

def proto_io_adapters(ctx, rid):
    """Every control-plane byte reaches the protocol crate through `<QuicRecvStream as proto::AsyncRead>::poll_read`: it must read straight
    into the caller's buffer and report exactly the number of bytes quinn filled (`filled().len()`), otherwise partially arrived fields are
    taken as complete; `poll_write` must hand quinn the caller's slice and return quinn's count."""
    A = ctx.A
    f = A.fn("<wtransport::driver::streams::QuicRecvStream as wtransport_proto::bytes::AsyncRead>::poll_read")
    with depth_limit(12):
        sg = sorted(path_sig(p) for p in nonpanic(walk(f)))
    RD = r"<RecvStream as AsyncRead>::poll_read\(self\.0,cx,ReadBuf::new\(buf\)\)"
    okk = len(sg) == 3 and any(re.search(r"^return Poll::Ready\(Result::Ok\(<impl \[T\]>::len\(ReadBuf::filled\(ReadBuf::new\(buf\)\)\)\)\)$", l) for _, l in sg) and any(l == "return Poll::Pending" for _, l in sg)
    ctx.check(rid, "QuicRecvStream::poll_read (proto AsyncRead)", okk, "QuicRecvStream's AsyncRead impl no longer reads straight into the caller's buffer and returns filled().len(): %s" % [l for _, l in sg], where(f))
    f = A.fn("<wtransport::driver::streams::QuicSendStream as wtransport_proto::bytes::AsyncWrite>::poll_write")
    sg = [path_sig(p)[1] for p in nonpanic(walk(f))]
    ctx.check(rid, "QuicSendStream::poll_write (proto AsyncWrite)", sg == ["return <SendStream as AsyncWrite>::poll_write(self.0,cx,buf)"] or (len(sg) == 1 and re.match(r"^return <SendStream as AsyncWrite>::poll_write\(.*self\.0.*,cx,buf\)$", sg[0])), "QuicSendStream's AsyncWrite impl changed: %s" % sg, where(f))



# ------------------------------------------------------------------ stream handles delegate I/O to the quinn stream unchanged

_ONLY_BISTREAM_ACCESSORS = re.compile(r"^(?!wtransport::stream::BiStream::(send|recv)(_mut)?$).*$")


def stream_io_delegation(ctx, rid):
    """The data path of a stream is `public wrapper -> Quic{Send,Recv}Stream -> quinn`: every hop passes the caller's buffer, returns the
    inner call's count / end-of-stream marker unchanged, `write_all` is quinn's `write_all` (not a single partial `write`), and every tokio
    AsyncRead/AsyncWrite method forwards to the *same* method of the wrapped stream (`poll_shutdown` is what sends the FIN)."""
    A = ctx.A
    nio = 0
    for g in A.fn_list:
        m = re.match(r"^<wtransport::(.*) as tokio::io::Async(Read|Write)>::(poll_\w+)$", g.path)
        if not m or not g.body:
            continue
        nio += 1
        sg = [path_sig(p)[1] for p in nonpanic(walk(g, inline=_ONLY_BISTREAM_ACCESSORS))]   # `self.0.0` and `self.send_mut()` are the same place
        ctx.check(rid, "%s::%s (tokio) delegates to the same method" % (m.group(1).split("::")[-1], m.group(3)),
                  len(sg) == 1 and re.match(r"^return (<\w+ as Async(Read|Write)>|Async(Read|Write))::%s\(self\.[\w.]+,cx(,\w+)?\)$" % m.group(3), sg[0]) is not None,
                  "%s does not delegate to the wrapped stream's %s: %s" % (g.path, m.group(3), sg), where(g), key="tokio delegation|%s" % g.path.replace("wtransport::", ""))
    ctx.floor(rid, "tokio AsyncRead/AsyncWrite methods", nio, 12)
    for nm in ("write", "write_all"):
        f = A.find1(r"^wtransport::driver::streams::QuicSendStream::%s::\{closure#0\}$" % nm)
        sg = sorted(path_sig(p)[1] for p in nonpanic(walk(f)))
        W = "await(SendStream::%s(self.0,buf))" % nm
        want = sorted(["return Result::Err(err(%s))" % W, ("return Result::Ok(ok(%s))" % W) if nm == "write" else "return Result::Ok(())"])
        ctx.check(rid, "QuicSendStream::%s passes buf/count/error through" % nm, sg == want, "QuicSendStream::%s does not pass buf/count/error through unchanged: %s" % (nm, sg), where(f))
    f = A.find1(r"^wtransport::driver::streams::QuicRecvStream::read::\{closure#0\}$")
    R = r"await\(RecvStream::read\(self\.0,buf\)\)"
    sg = sorted(path_sig(p)[1] for p in nonpanic(walk(f)))
    ctx.check(rid, "QuicRecvStream::read returns quinn's count and end-of-stream marker", len(sg) == 3 and any(re.match(r"^return Result::Ok\(Option::Some\(ok\(ok\(%s\)\)\)\)$" % R, l) for l in sg) and "return Result::Ok(Option::None)" in sg,
              "QuicRecvStream::read alters quinn's result: %s" % sg, where(f))
    for ty, nm, inner in (("SendStream", "write", "QuicSendStream::write(self.0,buf)"), ("SendStream", "write_all", "QuicSendStream::write_all(self.0,buf)"),
                          ("SendStream", "finish", "QuicSendStream::finish(self.0)"),
                          ("RecvStream", "read", "QuicRecvStream::read(self.0,buf)"), ("RecvStream", "read_exact", "QuicRecvStream::read_exact(self.0,buf)")):
        f = A.find1(r"^wtransport::stream::%s::%s::\{closure#0\}$" % (ty, nm))
        sg = [path_sig(p)[1] for p in nonpanic(walk(f))]
        ctx.check(rid, "%s::%s delegates unchanged" % (ty, nm), sg == ["return await(%s)" % inner], "%s::%s does not delegate unchanged: %s" % (ty, nm, sg), where(f))


# ------------------------------------------------------------------ quinn <-> wtransport identifier conversions and the id accessors above them

def id_conversions(ctx, rid):
    """varint_q2w / varint_w2q / streamid_q2w pass the 62-bit value through unchanged (no re-assembly from parts, no narrowing)"""
    A = ctx.A
    for nm, src, dst in (("varint_q2w", r"quinn(_proto)?::(varint::)?VarInt::into_inner", "wtransport_proto::varint::VarInt::from_u64_unchecked"),
                         ("varint_w2q", r"wtransport_proto::varint::VarInt::into_inner", r"quinn(_proto)?::(varint::)?VarInt::from_u64_unchecked")):
        f = A.fn("wtransport::driver::utils::%s" % nm)
        ok = False
        for p in nonpanic(walk(f)):
            leaf = p.leaf[1]
            if isinstance(leaf, tuple) and leaf[0] == "call" and re.search(dst, leaf[1]) and len(leaf[2]) == 1:
                a = leaf[2][0]
                if isinstance(a, tuple) and a[0] == "call" and re.search(src, a[1]) and a[2] == (("p", 1, "varint"),):
                    ok = True
        ctx.check(rid, nm, ok, "%s does not return <other>::VarInt::from_u64_unchecked(varint.into_inner())" % nm, where(f))
    f = A.fn("wtransport::driver::utils::streamid_q2w")
    STOPQ = re.compile(r"^wtransport_proto::(varint::VarInt|ids::StreamId)::|^quinn|^<impl .*From<quinn")
    sg = [path_sig(p)[1] for p in nonpanic(walk(f, inline=STOPQ))]
    ctx.check(rid, "streamid_q2w", sg == ["return StreamId(VarInt::from_u64_unchecked(VarInt::into_inner(<impl From<StreamId> for VarInt>::from(stream_id))))"],
              "streamid_q2w does not take the QUIC stream id verbatim (quinn::VarInt::from(stream_id).into_inner()): %s" % sg, where(f))


def id_accessors(ctx, rid):
    """every `id()` of a stream handle is the QUIC id of its own quinn stream through streamid_q2w, every `session_id()` of a driver-level
    WebTransport stream is the one its proto typestate parsed from the preamble"""
    A = ctx.A
    want = {
        r"^wtransport::stream::SendStream::id$": r"^return QuicSendStream::id\(self\.0\)$",
        r"^wtransport::stream::RecvStream::id$": r"^return QuicRecvStream::id\(self\.0\)$",
        r"^wtransport::driver::streams::QuicSendStream::id$": r"^return streamid_q2w\(SendStream::id\(self\.0\)\)$",
        r"^wtransport::driver::streams::QuicRecvStream::id$": r"^return streamid_q2w\(RecvStream::id\(self\.0\)\)$",
        r"^wtransport::driver::streams::(biremote|bilocal|session)::<impl .*>::id$": r"^return QuicSendStream::id\(self\.stream\.0\)$",
        r"^wtransport::driver::streams::(uniremote|unilocal)::<impl .*>::id$": r"^return Quic(Recv|Send)Stream::id\(self\.stream\)$",
        r"^wtransport::driver::streams::(biremote|bilocal|uniremote|unilocal)::<impl .*types::WT>>>::session_id$": r"^return <impl Stream<\w+, WT>>::session_id\(self\.proto\)$",
        r"^wtransport_proto::stream::(biremote|bilocal|uniremote|unilocal)::<impl .*types::WT>>::session_id$": r"^return WT::session_id\(self\.stage\)$",
        r"^wtransport_proto::stream::types::WT::session_id$": r"^return self\.session_id$",
        r"^wtransport::connection::Connection::session_id$": r"^return self\.session_id$",
        r"^wtransport::datagram::Datagram::session_id$": r"^return self\.session_id$",
    }
    n = 0
    for g in A.fn_list:
        if not g.body or "::tests::" in g.path:
            continue
        for pat, w in want.items():
            if re.match(pat, g.path):
                n += 1
                sg = [path_sig(p)[1] for p in nonpanic(walk(g))]
                ctx.check(rid, "id accessor", len(sg) == 1 and re.match(w, sg[0]) is not None, "%s does not return the identifier of its own stream / preamble: %s" % (g.path, sg), where(g),
                          key="id accessor|%s" % re.sub(r"wtransport(_proto)?::|stream::types::|driver::streams::", "", g.path))
                break
    ctx.floor(rid, "id / session_id accessors", n, 18)


# ------------------------------------------------------------------ table-driven check of thin forwarding functions

def forwarders(ctx, rid, table, what):
    """`table`: {function path (regex): (expected normal form of the single non-panicking path (regex), [required event regexes])}.
    Thin accessors / forwarders carry a value from where it is stored to where the user reads it; the property holds only if each of them
    returns exactly that value, so each is compared with its reviewed normal form (borrows, `?` vs match, helper inlining are invisible)."""
    A = ctx.A
    n = 0
    for pat, (leaf, evs) in table.items():
        fs = [g for g in A.fn_list if g.body and re.match(pat, g.path) and "::tests::" not in g.path]
        if not fs:
            ctx.check(rid, "%s: anchor" % what, False, "cannot decide: no function matches %s" % pat, key="%s|anchor|%s" % (what, pat))
            continue
        for g in fs:
            ps = nonpanic(walk(g))
            sg = [path_sig(p)[1] for p in ps]
            if len(sg) == 1 and sg[0].startswith("return coroutine:"):
                continue   # the shell of an `async fn`: its body is the {closure#0} the other rules read
            n += 1
            ev = [e for p in ps for e in event_strs(p)]
            ok = len(sg) == 1 and re.match(leaf, sg[0]) is not None and all(any(re.match(r, e) for e in ev) for r in evs)
            ctx.check(rid, "%s forwarder" % what, ok, "%s is %s%s, expected %s%s" % (g.path, sg, (" with effects %s" % ev[:4]) if evs else "", leaf, (" with " + " , ".join(evs)) if evs else ""),
                      where(g), key="%s|%s" % (what, re.sub(r"wtransport(_proto)?::|stream::types::|driver::streams::", "", g.path)))
    return n


# ------------------------------------------------------------------ the driver's stream typestate layer forwards to the proto typestate and keeps its quinn stream

def driver_stream_layer(ctx, rid):
    """`driver::streams::Stream<quinn stream(s), proto typestate>`: every stage transition keeps the *same* quinn stream and advances only the
    proto typestate; read_frame / stop / stopped / kind / request forward to the layer below with the stream's own halves; the accept / open
    constructors wrap exactly the stream quinn returned; the `is_empty` predicates of the critical-stream slots mean `stream.is_none()`."""
    S2 = r"\(QuicSendStream\(ok\(Result::ok\(await\(Connection::%s\(quic_connection\)\)\)\)\.0\),QuicRecvStream\(ok\(Result::ok\(await\(Connection::%s\(quic_connection\)\)\)\)\.1\)\)"
    table = {
        r"^wtransport::driver::streams::(biremote|bilocal|uniremote|unilocal)::<impl .*types::(Quic|H3)>>>::upgrade$": (r"^return streams::Stream\(self\.stream,<impl Stream<\w+, \w+>>::upgrade\(self\.proto(,session_id)?\)\)$", []),
        r"^wtransport::driver::streams::(biremote|bilocal)::<impl .*types::H3>>>::into_session$": (r"^return streams::Stream\(self\.stream,<impl Stream<\w+, H3>>::into_session\(self\.proto,session_request\)\)$", []),
        r"^wtransport::driver::streams::(biremote|bilocal|uniremote|unilocal)::<impl .*types::WT>>>::into_stream$": (r"^return self\.stream$", []),
        r"^wtransport::driver::streams::(biremote|session)::<impl .*>::read_frame::\{closure#0\}$": (r"^return await\(<impl Stream<\w+, \w+>>::read_frame_async\(self\.proto,self\.stream\.1\)\)$", []),
        r"^wtransport::driver::streams::uniremote::<impl .*>::read_frame::\{closure#0\}$": (r"^return await\(<impl Stream<UniRemote, H3>>::read_frame_async\(self\.proto,self\.stream\)\)$", []),
        r"^wtransport::driver::streams::(biremote|session)::<impl .*>::stop$": (r"^return QuicRecvStream::stop\(self\.stream\.1,error_code\)$", []),
        r"^wtransport::driver::streams::unilocal::<impl .*>::stopped::\{closure#0\}$": (r"^return await\(QuicSendStream::stopped\(self\.stream\)\)$", []),
        r"^wtransport::driver::streams::(uniremote|unilocal)::<impl .*types::H3>>>::kind$": (r"^return <impl Stream<\w+, H3>>::kind\(self\.proto\)$", []),
        r"^wtransport::driver::streams::biremote::<impl .*types::Quic>>>::accept_bi::\{closure#0\}$": None,
        r"^wtransport::driver::streams::(connect::ConnectStream|qpack::RemoteQPack(Enc|Dec)Stream|settings::(Local|Remote)SettingsStream)::is_empty$": (r"^return Option::is_none\(self\.stream\)$", []),
        r"^wtransport::driver::streams::(connect::ConnectStream|qpack::RemoteQPack(Enc|Dec)Stream|settings::(Local|Remote)SettingsStream)::set_stream$": (r"^return \(\)$", [r"^store self\.stream := Option::Some\(stream\)$"]),
        r"^wtransport::driver::streams::session::<impl .*types::Session>>>::finish::\{closure#0\}$": (r"^return \(\)$", [r"^await QuicSendStream::finish\(self\.stream\.0\)$"]),
        r"^wtransport::driver::streams::session::<impl .*types::Session>>>::reset$": (r"^return \(\)$", [r"^QuicSendStream::reset\(self\.stream\.0,error_code\)$"]),
    }
    A = ctx.A
    n = forwarders(ctx, rid, {k: v for k, v in table.items() if v is not None}, "driver stream layer")
    for nm, mod, role, two in (("accept_bi", "biremote", "BiRemote", True), ("open_bi", "bilocal", "BiLocal", True), ("accept_uni", "uniremote", "UniRemote", False), ("open_uni", "unilocal", "UniLocal", False)):
        f = A.find1(r"^wtransport::driver::streams::%s::<impl .*types::Quic>>>::%s::\{closure#0\}$" % (mod, nm))
        sg = sorted(path_sig(p)[1] for p in nonpanic(walk(f)))
        inner = (S2 % (nm, nm)) if two else (r"Quic(Recv|Send)Stream\(ok\(Result::ok\(await\(Connection::%s\(quic_connection\)\)\)\)\)" % nm)
        ok = len(sg) == 2 and sg[0] == "return Option::None" and re.match(r"^return Option::Some\(streams::Stream\(%s,<impl Stream<%s, Quic>>::%s\(\)\)\)$" % (inner, role, nm), sg[1]) is not None
        n += 1
        ctx.check(rid, "driver stream layer forwarder", ok, "driver %s::%s does not wrap exactly the stream quinn returned (or None on failure): %s" % (mod, nm, sg), where(f), key="driver stream layer|%s::%s" % (mod, nm))
    ctx.floor(rid, "driver stream layer functions", n, 30)

# ------------------------------------------------------------------ public accept wrappers delegate before anything else

def accept_wrappers(ctx, rid):
    """`Connection::accept_uni / accept_bi / receive_datagram` first ask the driver (which drains what is already queued and only then
    reports the termination cause); no path returns before that await, and the error is the driver's, converted."""
    A = ctx.A
    for nm in ("accept_uni", "accept_bi", "receive_datagram"):
        f = A.find1(r"^wtransport::connection::Connection::%s::\{closure#0\}$" % nm)
        ps = nonpanic(walk(f))
        bad = []
        for p in ps:
            ev = event_strs(p)
            first_effect = [e for e in ev if not e.startswith(("Driver::%s(" % nm,))][:1]
            okp = bool(first_effect) and first_effect[0] == "await Driver::%s(self.driver,self.session_id)" % nm
            # nothing is decided before the driver answered: the first guard on the path is about the driver's result
            at = path_sig(p)[0]
            if at and not re.match(r"^await\(Driver::%s\(self\.driver,self\.session_id\)\) (ok|fails)$" % nm, at[0]):
                okp = False
            if not okp:
                bad.append((list(at[:2]), path_sig(p)[1][:80]))
        ctx.check(rid, "Connection::%s asks the driver first on every path" % nm, bool(ps) and not bad,
                  "Connection::%s can return without (or decides before) awaiting Driver::%s: items already handed to the session's queue would never be delivered: %s" % (nm, nm, bad[:2]),
                  where(f), key="Connection::%s asks the driver first" % nm)
    connection_error_source(ctx, rid, ("accept_uni", "accept_bi", "receive_datagram"))


def error_values(paths):
    """canonical error values a function can return: `Err(e)` leaves as they are, a returned `x.map_err(F)` as `F(err(x))`"""
    out = set()
    for p in paths:
        if p.leaf[0] != "return":
            continue
        v = strip_refs(p.leaf[1])
        if isinstance(v, tuple) and v[0] == "call" and v[1].endswith("result::Result::map_err") and len(v[2]) == 2:
            out.add(canon(("apply", v[2][1], ("err", v[2][0]))))
        elif isinstance(v, tuple) and v[0] == "agg" and len(v) > 5 and v[3] == "Err" and v[5]:
            out.add(canon(v[5][0]))
    return out


def connection_error_source(ctx, rid, names):
    """the error of a `Connection` operation that waits on the peer is built from the *driver's* error (which carries the capsule's /
    clean finish's code and reason) and only falls back to the QUIC close reason inside `with_driver_error`"""
    A = ctx.A
    for nm in names:
        f = A.find1(r"^wtransport::connection::Connection::%s::\{closure#0\}$" % nm)
        ev = error_values(nonpanic(walk(f)))
        want = {"ConnectionError::with_driver_error(err(await(Driver::%s(self.driver,self.session_id))),self.quic_connection)" % nm}
        ctx.check(rid, "Connection::%s reports the driver's error" % nm, ev == want,
                  "Connection::%s builds its error from %s, expected %s (the session's termination cause lives in the driver's error)" % (nm, sorted(ev), sorted(want)),
                  where(f), key="Connection::%s error source" % nm)


# ------------------------------------------------------------------ buffer cursor accessors

def buffer_accessors(ctx, rid):
    """The accessors the size / capacity guards are written against mean what they say: `capacity()` is the room still free after the cursor
    (octets `cap()`), `offset()` the cursor (octets `off()`), `buffer_written()` / `buffer_remaining()` the prefix / suffix at the cursor."""
    A = ctx.A
    want = {
        "BufferReader::capacity": "return Octets::cap(self.0)",
        "BufferReader::offset": "return Octets::off(self.0)",
        "BufferReader::buffer": "return Octets::buf(self.0)",
        "BufferReader::buffer_remaining": "return BufferReader::buffer(self)[BufferReader::offset(self)..]",
        "BufferWriter::capacity": "return OctetsMut::cap(self.0)",
        "BufferWriter::offset": "return OctetsMut::off(self.0)",
        "BufferWriter::buffer_written": "return OctetsMut::buf(self.0)[..BufferWriter::offset(self)]",
    }
    for nm, w in want.items():
        f = A.fn("wtransport_proto::bytes::" + nm)
        ls = [path_sig(p)[1] for p in nonpanic(walk(f))]
        ctx.check(rid, nm, ls == [w], "%s is %s, expected `%s`: every `capacity() < write_size()` guard and every consumed-bytes count is stated in terms of it" % (nm, ls, w[7:]), where(f))


def slice_reader_advance(ctx, rid):
    """`<&[u8] as BytesReader>::get_varint` consumes exactly the on-wire length of the varint (`parse_size(first byte)`), not the minimal length
    of its value: a non-minimal encoding (legal in HTTP/3) must not leave bytes behind to be re-read as the next field."""
    A = ctx.A
    f = A.fn("<&[u8] as wtransport_proto::bytes::BytesReader>::get_varint")
    ps = nonpanic(walk(f))
    okp = [p for p in ps if path_sig(p)[1].startswith("return Option::Some")]
    adv = [e for p in okp for e in event_strs(p) if e.startswith("store self :=")]
    ctx.check(rid, "<&[u8]>::get_varint advances by parse_size(first)",
              bool(adv) and all(re.match(r"^store self := self\[VarInt::parse_size\(ok\(<impl \[T\]>::first\(self\)\)\)\.\.\]$", e) for e in adv),
              "<&[u8] as BytesReader>::get_varint does not advance by exactly the encoded length of the varint: %s" % adv, where(f))
    f = A.fn("<&[u8] as wtransport_proto::bytes::BytesReader>::get_bytes")
    ps = nonpanic(walk(f))
    adv = [e for p in ps if path_sig(p)[1].startswith("return Option::Some") for e in event_strs(p) if e.startswith("store self :=")]
    ctx.check(rid, "<&[u8]>::get_bytes advances by len", bool(adv) and all(e == "store self := self[len..]" for e in adv),
              "<&[u8] as BytesReader>::get_bytes does not advance by exactly `len`: %s" % adv, where(f))
