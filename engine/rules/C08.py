"""C08 — every peer-opened stream is delivered exactly once at any acceptance pace."""
import re
import corowit
from corowit import CoroIndex, ty_short
from rules import shared
from rules.C05 import short_chain
from rulelib import walk, nonpanic, path_sig, event_strs, where

import witness

EXPLANATION = ("Structural necessary conditions of exactly-once delivery: stream / datagram handles are move-only (no Clone/Copy impl); "
               "the documented cancel-safe accept futures own no dequeued value at any suspension point and await only cancel-safe "
               "leaf futures (coroutine layout); the worker pulls an item from quinn only after reserving a slot on every queue "
               "it can be routed to; each per-stream task hands a parsed stream to exactly one queue through an infallible "
               "Permit::send and drops it only on the enumerated error arms."
               ' Also (C08-R7/R8): a reset before the preamble stays a per-stream IO event; the public accept calls ask the driver first on every path (queued items are drained before the termination cause is reported). C08-R9 ("with its own bytes"): SendStream/RecvStream -> Quic{Send,Recv}Stream -> quinn pass the buffer of the caller and the count/end-of-stream marker of quinn unchanged; write_all is the write_all of quinn; every tokio poll_* method forwards to the same method of the wrapped stream. C08-R10: the accept / open constructors of the driver stream layer wrap exactly the stream quinn returned and every stage transition (upgrade, into_session, into_stream) keeps the same quinn stream. C08-R11: the worker loop suspends only in its select!; a handler that waits (e.g. for room in the sessions queue) would stop every later stream from being pulled.')
NOT_DECIDED = ["exactly-once of quinn's accept queue and tokio's mpsc (trusted)", "behaviour with many concurrent acceptors at run time"]
TRUSTED = ["rustc trait/impl table and coroutine layout", "tokio mpsc / Mutex cancel-safety as documented", "quinn accept futures' cancel-safety as documented"]

VALUE_TYPES = (
    "wtransport::driver::streams::Stream", "wtransport::driver::streams::QuicRecvStream", "wtransport::driver::streams::QuicSendStream",
    "wtransport::datagram::Datagram", "wtransport::stream::RecvStream", "wtransport::stream::SendStream", "wtransport::stream::BiStream",
    "quinn::RecvStream", "quinn::SendStream", "quinn::recv_stream::RecvStream", "quinn::send_stream::SendStream",
)


def run(ctx):
    A = ctx.A
    idx = CoroIndex(A)
    ctx.rule("C08-R1", "stream and datagram handles are move-only: no Clone / Copy impl")
    for ty in ("wtransport::driver::streams::QuicRecvStream", "wtransport::driver::streams::QuicSendStream", "wtransport::driver::streams::Stream",
               "wtransport::stream::RecvStream", "wtransport::stream::SendStream", "wtransport::stream::BiStream", "wtransport::datagram::Datagram",
               "wtransport::stream::OpeningUniStream", "wtransport::stream::OpeningBiStream"):
        A.adt(ty)
        bad = [i for i in A.impls if (i.get("trait") in ("std::clone::Clone", "std::marker::Copy")) and
               (i.get("self_j", {}).get("did") == ty)]
        ctx.check("C08-R1", ty.split("::")[-1] + " not Clone/Copy", not bad,
                  "%s implements %s: a delivered handle could be duplicated" % (ty, [b.get("trait") for b in bad]), bad[0]["at"]["sp"] if bad else "?")

    witness.run(ctx, "C08-R1", {"C08"})

    ctx.rule("C08-R2", "cancel safety: accept/receive futures own no dequeued value at any suspension and await only cancel-safe futures")
    n = 0
    for pat in (r"^wtransport::driver::Driver::(accept_uni|accept_bi|receive_datagram|result)::\{closure#0\}$",
                r"^wtransport::connection::Connection::(accept_uni|accept_bi|receive_datagram)::\{closure#0\}$",
                r"^wtransport::driver::utils::SharedResultGet::result::\{closure#0\}$"):
        for c in [c for p, c in idx.coros.items() if re.search(pat, p)]:
            cname = short_chain([c.path])
            for s in c.susp:
                n += 1
                owned = []
                for nm, ty in s.held_types():
                    r = idx.contains(ty, lambda d: d in VALUE_TYPES, through_local_adts=False)
                    if r:
                        owned.append((nm, ty_short(ty)))
                ctx.check("C08-R2", "%s|susp%d owns no dequeued value" % (cname, s.variant), not owned,
                          "%s owns %s across an await: cancelling the future here drops a stream/datagram that was already dequeued" % (cname, owned), s.where,
                          key="%s|owns=%s" % (cname, ",".join(o[0] or "?" for o in owned)))
                aw = s.awaitee
                res = idx.classify(aw["ty_j"], "pcf") if aw else [("unknown", ["no awaitee"])]
                bad = [(k, short_chain(c2)) for k, c2 in res]
                ctx.check("C08-R2", "%s|susp%d awaits cancel-safe" % (cname, s.variant), not bad,
                          "%s awaits a future that is not known to be cancel-safe: %s" % (cname, bad[:3]), s.where,
                          key="%s|awaits=%s" % (cname, bad[0][1] if bad else ""))
                ctx.sample({"rule": "C08-R2", "coroutine": cname, "at": s.where, "held": [(a, ty_short(b)) for a, b in s.held_types()],
                            "awaits": ty_short(aw["ty_j"]) if aw else None})
    ctx.floor("C08-R2", "suspension points of accept futures", n, 14)

    ctx.rule("C08-R3", "permit before pull: quinn accept/read_datagram is preceded by successful reservations on every target queue")
    shared.permit_before_pull(ctx, "C08-R3")

    ctx.rule("C08-R4", "per-stream tasks: exactly one infallible hand-off per parsed stream; drops only on enumerated error arms")
    shared.spawned_task_tables(ctx, "C08-R4")
    # accept_datagram: parsed datagram handed to the reserved slot
    fn = A.find1(r"^wtransport::driver::worker::Worker::accept_datagram::\{closure#0\}$")
    ps = nonpanic(walk(fn))
    okp = [p for p in ps if path_sig(p)[1] == "return Result::Ok(())"]
    good = okp and all(any(re.match(r"^Permit::send\(.*,ok\(Datagram::read\(.*\)\)\)$", e) for e in event_strs(p)) for p in okp)
    ctx.check("C08-R4", "accept_datagram hand-off", bool(good), "Worker::accept_datagram returns Ok without sending the parsed datagram to the reserved slot", where(fn))

    ctx.rule("C08-R5", "the worker's select-branch futures accept_uni/accept_bi/accept_datagram carry no stream-read progress")
    shared.acceptor_branches(ctx, "C08-R5", idx)

    ctx.rule("C08-R7", "a fault on one peer stream before its preamble is read stays a per-stream event (IO), never a connection-level H3 error")
    shared.uni_upgrade_maps(ctx, "C08-R7")

    ctx.rule("C08-R8", "per-stream faults below the preamble stay per-stream; the public accept calls drain the queue before reporting termination")
    from rules.C05 import eof_rules
    eof_rules(ctx, "C08-R8")
    shared.accept_wrappers(ctx, "C08-R8")

    ctx.rule("C08-R6", "a dequeued stream of the session is returned, never refused: only foreign-session streams are stopped")
    shared.driver_session_filters(ctx, "C08-R6", which=("accept_uni", "accept_bi"))

    ctx.rule("C08-R9", "with its own bytes: the handles of an accepted stream pass buffers and counts to/from the quinn stream unchanged (write_all writes all)")
    shared.stream_io_delegation(ctx, "C08-R9")

    ctx.rule("C08-R10", "none invented, none swapped: the driver's stream layer wraps exactly the stream quinn returned and every stage transition keeps that same stream")
    shared.driver_stream_layer(ctx, "C08-R10")

    ctx.rule("C08-R11", "streams keep being pulled at any acceptance pace of anything else: the worker loop suspends only in its select!, no handler waits for room in another queue")
    shared.worker_loop_never_parks(ctx, "C08-R11", idx)
