"""C04 — session termination is reported with the peer's exact code and reason."""
import re
from rules import shared
from rules.shared import SPEC
from rulelib import walk, match_table, nonpanic, path_sig, event_strs, where, const_int

EXPLANATION = ("Decision tables of ConnectStream::run (capsule / FIN / reset -> DriverError), CloseWebTransportSession::with_capsule "
               "(length guard 4..=4+1024, big-endian u32 code, reason = payload[4..] unchanged), Capsule::with_frame, Worker::run "
               "(stores exactly run_impl's error; QUIC close code), ConnectionError::with_driver_error / no_connect / "
               "From<quinn::ConnectionError>, and the six Driver waiters are extracted from MIR on every path and compared "
               "with the reference rows; plus the EOF classification below it: GetVarint reports ImmediateFin iff no byte of the frame was consumed "
               "(state kept in the future, not in a poll-local), later fields and the eight read_frame mappings turn a FIN inside a frame into H3 FRAME_ERROR."
               ' Also: the largest admissible close capsule (1024-byte reason) fits the frame payload cap of the readers (two cooperating constants). C04-R7: Connection::accept_uni / accept_bi / receive_datagram / open_uni / open_bi return exactly ConnectionError::with_driver_error(<the error of the driver call>, quic_connection) on failure.')
NOT_DECIDED = ["that the event is delivered at every point of the session's life under a concrete schedule (see C05 finding F1)",
               "quinn's delivery of CONNECTION_CLOSE"]
TRUSTED = ["rustc MIR", "u32::from_be_bytes / str::from_utf8 / slice indexing semantics (std)", "quinn::ConnectionError field meaning"]


def run(ctx):
    A = ctx.A
    ctx.rule("C04-R1", "ConnectStream::run decision table")
    shared.connect_stream_run_table(ctx, "C04-R1")
    # ApplicationClose::new stores (code, reason) unchanged
    f = A.fn("wtransport::error::ApplicationClose::new")
    ps = nonpanic(walk(f))
    ctx.check("C04-R1", "ApplicationClose::new", [path_sig(p)[1] for p in ps] == ["return ApplicationClose(code,reason)"],
              "ApplicationClose::new does not store (code, reason) unchanged: %s" % [path_sig(p)[1] for p in ps], where(f))
    for acc, fld in (("code", "code"), ("reason", "reason")):
        f = A.fn("wtransport::error::ApplicationClose::%s" % acc)
        ls = [path_sig(p)[1] for p in nonpanic(walk(f))]
        ctx.check("C04-R1", "ApplicationClose::%s" % acc, len(ls) == 1 and re.match(r"^return [*(]*self\.%s\b[^,;]*$" % fld, ls[0]) is not None and "::" not in ls[0],
                  "ApplicationClose::%s() does not return the stored field: %s" % (acc, ls), where(f))

    ctx.rule("C04-R2", "capsule parsing: type 0x2843, 4 <= len <= 4+1024, big-endian code, reason = payload[4..] as UTF-8")
    shared.registry_values(ctx, "C04-R2", which=("capsule",))
    fn = A.fn("wtransport_proto::capsule::close_wt_session::CloseWebTransportSession::with_capsule")
    LEN = r"<impl \[T\]>::len\(Capsule::payload\(capsule\)\)"
    HI = SPEC["capsule"]["code_bytes"] + SPEC["capsule"]["max_reason_len"]
    IDX = r"Capsule::payload\(capsule\)\[%s\]"
    CODE = r"<impl u32>::from_be_bytes\(Result::expect\(<T as TryInto<U>>::try_into\(%s\),[^()]*\)\)" % (IDX % r"\.\.4")
    UTF = r"from_utf8\(%s\)" % (IDX % r"4\.\.")
    rows = [
        {"name": "too short->error", "atoms": [r"^%s < 4$" % LEN], "not_events": [r"payload\(capsule\)\["], "leaf": r"^return Result::Err\(ErrorCode::\w+\)$"},
        {"name": "too long->error", "atoms": [r"^%s >= 4$" % LEN, r"^%s > %d$" % (LEN, HI)], "not_events": [r"payload\(capsule\)\["], "leaf": r"^return Result::Err\(ErrorCode::\w+\)$"},
        {"name": "reason not UTF-8->error", "atoms": [r"^%s >= 4$" % LEN, r"^%s <= %d$" % (LEN, HI), r"^%s fails$" % UTF], "leaf": r"^return Result::Err\(ErrorCode::\w+\)$"},
        {"name": "ok->(be32(payload[..4]), payload[4..])", "atoms": [r"^%s >= 4$" % LEN, r"^%s <= %d$" % (LEN, HI), r"^%s ok$" % UTF],
         "leaf": r"^return Result::Ok\(CloseWebTransportSession\(%s,<T as ToString>::to_string\(ok\(%s\)\)\)\)$" % (CODE, UTF)},
    ]
    match_table(ctx, "C04-R2", fn, walk(fn), rows, "CloseWebTransportSession::with_capsule")
    # the error closure of the UTF-8 failure returns an ErrorCode constant (never Ok / ApplicationClosed)
    cl = A.find1(r"^wtransport_proto::capsule::close_wt_session::CloseWebTransportSession::with_capsule::\{closure#0\}$")
    ls = [path_sig(p)[1] for p in nonpanic(walk(cl))]
    ctx.check("C04-R2", "with_capsule utf8 error closure", all(re.match(r"^return ErrorCode::\w+$", l) for l in ls) and ls,
              "UTF-8 failure closure does not return an ErrorCode: %s" % ls, where(cl))
    f = A.fn("wtransport_proto::capsule::close_wt_session::CloseWebTransportSession::error_code")
    ls = [path_sig(p)[1] for p in nonpanic(walk(f))]
    ctx.check("C04-R2", "CloseWebTransportSession::error_code", ls == ["return VarInt::from_u32(self.error_code)"], "error_code() is not VarInt::from_u32(self.error_code): %s" % ls, where(f))
    f = A.fn("wtransport_proto::capsule::close_wt_session::CloseWebTransportSession::reason")
    ls = [path_sig(p)[1] for p in nonpanic(walk(f))]
    ctx.check("C04-R2", "CloseWebTransportSession::reason", len(ls) == 1 and re.match(r"^return <String as Deref>::deref\(self\.reason\)$|^return self\.reason$", ls[0]) is not None, "reason() does not return the stored string: %s" % ls, where(f))
    shared.capsule_with_frame_table(ctx, "C04-R2")
    # the largest admissible close capsule must fit in the largest frame the readers accept: two cooperating constants
    def vsize(v):
        return 1 if v < 64 else 2 if v < 16384 else 4 if v < (1 << 30) else 8
    cap = const_int(A, "wtransport_proto::frame::Frame::MAX_PARSE_PAYLOAD_ALLOWED")
    maxr = SPEC["capsule"]["max_reason_len"]   # the with_capsule table above pins the accepted payload length to 4..=4+max_reason_len
    need = vsize(SPEC["capsule"]["CloseWebTransportSession"]) + vsize(SPEC["capsule"]["code_bytes"] + maxr) + SPEC["capsule"]["code_bytes"] + maxr
    ctx.check("C04-R2", "largest close capsule fits the frame payload cap", cap >= need,
              "a CLOSE_WEBTRANSPORT_SESSION capsule with a %d-byte reason needs a DATA payload of %d bytes but Frame::MAX_PARSE_PAYLOAD_ALLOWED is %d: "
              "the frame reader refuses it (ExcessiveLoad) before the capsule parser sees it and the peer's code and reason are lost" % (maxr, need, cap),
              key="close capsule fits frame cap")

    ctx.rule("C04-R6", "'clean FIN' is told apart from 'FIN inside a frame' at every layer below ConnectStream::run (its table maps the two to different causes)")
    from rules.C05 import eof_rules
    eof_rules(ctx, "C04-R6")
    shared.read_frame_maps(ctx, "C04-R6")

    ctx.rule("C04-R3", "Worker::run stores exactly run_impl's error and closes QUIC with the matching code")
    shared.worker_run_table(ctx, "C04-R3")

    ctx.rule("C04-R4", "ConnectionError mappings: with_driver_error, no_connect, From<quinn::ConnectionError> (payload unchanged)")
    shared.connection_error_tables(ctx, "C04-R4")

    ctx.rule("C04-R5", "Driver waiters report queue closure as Err(self.result().await)")
    shared.driver_waiters(ctx, "C04-R5")

    ctx.rule("C04-R7", "the public operations that wait on the peer build their error from the driver's error (capsule / clean-finish code and reason), not from the QUIC close reason alone")
    shared.connection_error_source(ctx, "C04-R7", ("accept_uni", "accept_bi", "receive_datagram", "open_uni", "open_bi"))
