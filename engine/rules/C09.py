"""C09 — termination is prompt, total and never misattributed."""
import re
from rules import shared
from corowit import CoroIndex, ty_short
from rulelib import walk, match_table, nonpanic, path_sig, event_strs, where, depth_limit, canon
import obligations

EXPLANATION = ("(1) set-once: in SharedResultSet::set the store is dominated by state.is_none() and the closure reports `modified` only there; "
               "(2) must-set: every path of Worker::run from run_impl's return to exit passes driver_result.set(error) with exactly that error, and "
               "run_impl has no Ok return; (3) attribution tables ConnectStream::run (how each way the session stream ends is reported) / with_driver_error / no_connect / From<quinn::ConnectionError> / "
               "with_connect_error; (4) every Driver waiter maps queue closure to Err(self.result().await), open_* maps None to NotConnected; "
               "(5) handle drop: the worker select has a branch on driver_result.closed() that returns NotConnected and Driver::init moves only "
               "the setter into the task; (6) panic inventory of the worker and Driver API with structural discharges where the invariant is visible."
               " Also (C09-R7/R8): the worker loop parks only at its select! (handlers never await); finish() takes its result from stopped(); the accept wrappers report the driver's error.")
NOT_DECIDED = ["boundedness in time", "absence of panics that depend on quinn's run-time state (listed as assumptions)"]
TRUSTED = ["rustc MIR / coroutine layout", "tokio watch::Sender::{send_if_modified,closed} semantics", "quinn close_reason()"]


def run(ctx):
    A = ctx.A
    ctx.rule("C09-R1", "set-once: the shared result is written only when empty; later sets are no-ops")
    f = A.fn("wtransport::driver::utils::SharedResultSet::set")
    sg = [path_sig(p)[1] for p in nonpanic(walk(f))]
    ctx.check("C09-R1", "set delegates to send_if_modified", sg == ["return Sender::send_if_modified(self.0,closure:SharedResultSet::{closure#0})"], "SharedResultSet::set changed: %s" % sg, where(f))
    cl = A.fn("wtransport::driver::utils::SharedResultSet::set::{closure#0}")
    rows = [
        {"name": "empty->store, report modified", "atoms": [r"^state fails$"], "events": [r"^store state := Option::Some\(result\)$"], "leaf": r"^return 1$"},
        {"name": "already set->untouched, not modified", "atoms": [r"^state ok$"], "not_events": [r"^store "], "leaf": r"^return 0$"},
    ]
    match_table(ctx, "C09-R1", cl, walk(cl), rows, "SharedResultSet::set closure")
    g = A.find1(r"^wtransport::driver::utils::SharedResultGet::result::\{closure#0\}$")
    B = r"<Option<T> as Clone>::clone\(Receiver::borrow\(await\(Mutex::lock\(self\.0\)\)\)\)"
    rows = [
        {"name": "set->Some(value)", "atoms": [r"^%s ok$" % B], "leaf": r"^return Option::Some\(ok\(%s\)\)$" % B},
        {"name": "unset, changed->re-check", "atoms": [r"^%s fails$" % B, r"^await\(Receiver::changed\(.*\)\) ok$"], "leaf": r"^continue$"},
        {"name": "unset, all setters gone->None", "atoms": [r"^%s fails$" % B, r"^await\(Receiver::changed\(.*\)\) fails$"], "leaf": r"^return Option::None$"},
    ]
    match_table(ctx, "C09-R1", g, walk(g), rows, "SharedResultGet::result")

    ctx.rule("C09-R2", "must-set: Worker::run stores run_impl's error on every path; run_impl never returns Ok")
    shared.worker_run_table(ctx, "C09-R2")
    w = A.fn("wtransport::driver::worker::Worker::run_impl::{closure#0}")
    with depth_limit(4):
        ps = walk(w)
        rets = [path_sig(p)[1] for p in ps if p.leaf[0] == "return"]
    okr = [r for r in rets if not (r.startswith("return Result::Err(") or r.startswith("return Err(from("))]
    ctx.check("C09-R2", "run_impl returns only Err", bool(rets) and not okr, "Worker::run_impl has a non-error return: %s" % okr[:3], where(w))
    ctx.count("run_impl_return_paths", len(rets))

    ctx.rule("C09-R3", "attribution tables (driver error -> ConnectionError, quinn error -> ConnectionError, connect error)")
    shared.connection_error_tables(ctx, "C09-R3")
    f = A.fn("wtransport::error::ConnectingError::with_connect_error")
    rows = [
        {"name": "EndpointStopping", "atoms": [r"^error is EndpointStopping$"], "leaf": r"^return ConnectingError::EndpointStopping$"},
        {"name": "CidsExhausted", "atoms": [r"^error is CidsExhausted$"], "leaf": r"^return ConnectingError::CidsExhausted$"},
        {"name": "InvalidServerName(n)", "atoms": [r"^error is InvalidServerName$"], "leaf": r"^return ConnectingError::InvalidServerName\(\(error as InvalidServerName\)\.0\)$"},
        {"name": "InvalidRemoteAddress(a)", "atoms": [r"^error is InvalidRemoteAddress$"], "leaf": r"^return ConnectingError::InvalidRemoteAddress\(\(error as InvalidRemoteAddress\)\.0\)$"},
    ]
    match_table(ctx, "C09-R3", f, walk(f), rows, "ConnectingError::with_connect_error")

    shared.connect_stream_run_table(ctx, "C09-R3")

    ctx.rule("C09-R4", "waiters: queue closure -> Err(self.result().await); failed open -> NotConnected")
    shared.driver_waiters(ctx, "C09-R4")

    ctx.rule("C09-R5", "handle drop: select branch on driver_result.closed() -> NotConnected; only the setter half moves into the worker task")
    idx = CoroIndex(A)
    c = idx.get(w.path)
    sel = [s for s in c.susp if s.is_select]
    ctx.check("C09-R5", "one select site", len(sel) == 1, "Worker::run_impl does not have exactly one select! site", w.at)
    if len(sel) == 1:
        _, _, branches = idx.select_info(sel[0])
        names = [ty_short(b) for b in (branches or [])]
        ci = [i for i, n in enumerate(names) if "SharedResultSet::closed" in n]
        ctx.check("C09-R5", "closed() branch present", len(ci) == 1, "no select branch awaits driver_result.closed(): %s" % names, sel[0].where)
        if len(ci) == 1:
            with depth_limit(4):
                hit = [path_sig(p)[1] for p in ps if any(re.search(r"^await\(poll_fn\(.*\)\) is _%d$" % ci[0], a) for a in path_sig(p)[0])]
            ctx.check("C09-R5", "closed() branch returns NotConnected", hit == ["return Result::Err(DriverError::NotConnected)"], "the closed() branch does not return Err(NotConnected): %s" % hit, sel[0].where)
        ctx.sample({"rule": "C09-R5", "select_branches": names})
    f = A.fn("wtransport::driver::Driver::init")
    sg = [path_sig(p)[1] for p in nonpanic(walk(f))]
    ctx.check("C09-R5", "Driver keeps the getter", len(sg) == 1 and sg[0].endswith(",shared_result().1)"), "Driver::init does not keep shared_result().1 (the getter) in the handle: %s" % sg, where(f))
    ev = [e for p in nonpanic(walk(f)) for e in event_strs(p)]
    ctx.check("C09-R5", "worker receives the setter", any(re.match(r"^Worker::new\(.*,shared_result\(\)\.0\)$", e) for e in ev), "Worker::new does not receive shared_result().0 (the setter)", where(f))
    f = A.fn("wtransport::driver::utils::shared_result")
    lf = [canon(p.leaf[1], keep_sites=True) for p in nonpanic(walk(f)) if p.leaf[0] == "return"]
    m = re.match(r"^\(SharedResultSet::new\(\)@(\d+),SharedResultSet::subscribe\(SharedResultSet::new\(\)@(\d+)\)@\d+\)$", lf[0]) if len(lf) == 1 else None
    ctx.check("C09-R5", "the getter is subscribed to its own setter", m is not None and m.group(1) == m.group(2), "shared_result() does not return (setter, setter.subscribe()): %s" % lf, where(f))
    shared.forwarders(ctx, "C09-R5", {
        r"^wtransport::driver::utils::SharedResultSet::new$": (r"^return SharedResultSet\(Arc::new\(channel\(Option::None\)\.0\)\)$", []),
        r"^wtransport::driver::utils::SharedResultSet::subscribe$": (r"^return SharedResultGet\(Mutex::new\(Sender::subscribe\(self\.0\)\)\)$", []),
    }, "shared result")
    f = A.find1(r"^wtransport::driver::utils::SharedResultSet::closed::\{closure#0\}$")
    ev = [e for p in nonpanic(walk(f)) for e in event_strs(p)]
    ctx.check("C09-R5", "closed() awaits watch::Sender::closed", any(re.match(r"^await Sender::closed\(", e) for e in ev), "SharedResultSet::closed does not await watch::Sender::closed: %s" % ev, where(f))

    ctx.rule("C09-R7", "the worker can always observe termination: its loop parks only at the select!, handlers never await")
    shared.worker_loop_never_parks(ctx, "C09-R7", idx)

    ctx.rule("C09-R8", "calls after termination end with the cause: finish() takes its result from stopped(); accept wrappers report the driver's error")
    shared.finish_table(ctx, "C09-R8")
    shared.accept_wrappers(ctx, "C09-R8")

    ctx.rule("C09-R6", "panic inventory of the worker and the Driver/Connection API (structural discharges where the invariant is visible)")
    inv = []
    targets = [fn for fn in A.fn_list if fn.body and re.match(r"^wtransport::(driver::(Driver|worker::Worker)|connection::Connection)::", fn.path) and "::tests::" not in fn.path]
    for fn in targets:
        try:
            obs = obligations.collect(fn)
        except Exception:
            continue
        for o in obs:
            if o.kind in ("panic", "call:expect", "call:unwrap", "call:expect_err"):
                inv.append(o)
    ctx.count("panic_sites", len(inv))
    ctx.floor("C09-R6", "panic sites inventoried", len(inv), 12)
    for o in inv:
        txt = o.text()
        how = None
        if "handle_uni_h3_stream" in o.fn.path and "unreachable" in txt:
            # discharged by routing: the accept_uni task sends WebTransport streams only to the wt queue (C08-R4 rows)
            how = "routing: accept_uni task row `H3 stream->h3 queue` carries `kind() isnot WebTransport`"
        elif "handle_bi_h3_stream" in o.fn.path and "unreachable" in txt:
            how = "routing: accept_bi task sends to the h3 queue only frames with session_id() == None, i.e. kind != WebTransport (Frame::session_id)"
        ctx.sample({"rule": "C09-R6", "site": o.fn.path.replace("wtransport::", ""), "panic": txt[:140], "at": o.loc, "status": "discharged: " + how if how else "assumption"})
        if how:
            ctx.ok("C09-R6", o.key, how)
        else:
            ctx.assume("panic site %s @%s: %s" % (o.fn.path.replace("wtransport::", ""), o.loc, txt[:120]))
    shared.spawned_task_tables(ctx, "C09-R6")
    # everything the worker task (and the tasks it spawns) runs on bytes from the peer: a panic there kills the worker before it stores a
    # result, so every waiter is left without a cause. The decoder obligations of C11 restricted to what the worker can reach must be discharged.
    import rules.C11 as c11
    roots = [A.fn("wtransport::driver::worker::Worker::run_impl::{closure#0}")]
    wclo = c11.closure_of(A, roots)
    entries = []
    for rx in c11.ENTRY:
        entries += A.find(rx)
    dclo = c11.closure_of(A, entries)
    both = {p for p in wclo if p in dclo}
    ctx.floor("C09-R6", "decoder functions reachable from the worker", len(both), 30)
    n_ob, n_gen, n_lem = c11.sweep(ctx, "C09-R6", A, dclo, c11.Support(ctx), only=both)
    ctx.count("worker_reachable_decoder_obligations", n_ob)
    ctx.assume("O4: Endpoint::accept `.expect(\"Endpoint cannot be closed\")` panics after Endpoint::close — endpoint-level, outside C09's `calls on the connection and its streams`")
