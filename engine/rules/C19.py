"""C19 — identities, PEM files and digests round-trip; generated certs are W3C-conformant."""
import re
import json as _json
from rulelib import walk, nonpanic, path_sig, event_strs, where, depth_limit, canon, construction_sites
from pathwalk import const_val
import obligations

EXPLANATION = ("Structural necessary conditions only: Identity::self_signed = builder.subject_alt_names(sans).from_now_utc().validity_days(14).build() "
               "with the constant <= 14; validity_days/offset_from_not_before compute not_after = not_before + days; build() generates the key with "
               "PKCS_ECDSA_P256_SHA256 and passes sans / not_before / not_after unchanged into CertificateParams; PEM tags are CERTIFICATE / PRIVATE KEY "
               "and to_pem encodes der()/secret_der() unchanged; every Certificate is constructed behind X509 parsing (from_der), from rustls "
               "(already-parsed peer certs) or from rcgen; digest formatter and parser agree per format (lower-hex joined by ':' <-> split ':' radix 16; "
               "{:?} of [u8;32] <-> trim '[' ']' split ',' decimal u8; in the whole parser family (function, closures, helpers) no truncating / skipping adaptor "
               "sits between the split and the element parser and Ok is reached only after a successful Vec<u8> -> [u8;32] conversion; FromStr tries both); the parsers / loaders "
               "contain no undischarged panic obligation."
               ' Also (C19-R5/R6): the pin set has order-independent membership (new/add/contains on a set type); the PEM writers create-and-truncate their destination. C19-R7: Identity::load_pemfiles builds the identity from CertificateChain::load_pemfile (the whole chain) and PrivateKey::load_pemfile; the chain loader collects every PEM section of the file and the chain writer writes to_pem() of every element; clone_identity clones chain and key.')
NOT_DECIDED = ["the round-trip equalities themselves (value-level)", "rcgen / x509-parser / pem crate behaviour", "file I/O"]
TRUSTED = ["rustc MIR", "rcgen CertificateParams semantics", "pem::encode / rustls_pki_types PEM parsing"]

T = "wtransport::tls::"


def run(ctx):
    A = ctx.A
    ctx.rule("C19-R1", "self-signed identity: <= 14 days from now, ECDSA P-256, parameters passed unchanged")
    f = A.fn(T + "Identity::self_signed")
    sg = [path_sig(p)[1] for p in nonpanic(walk(f))]
    m = re.match(r"^return SelfSignedIdentityBuilder::build\(SelfSignedIdentityBuilder::validity_days\(SelfSignedIdentityBuilder::from_now_utc\(SelfSignedIdentityBuilder::subject_alt_names\(SelfSignedIdentityBuilder::new\(\),subject_alt_names\)\),(\d+)\)\)$", sg[0]) if len(sg) == 1 else None
    ctx.check("C19-R1", "Identity::self_signed chain", m is not None, "Identity::self_signed is not new().subject_alt_names(sans).from_now_utc().validity_days(N).build(): %s" % sg, where(f))
    ctx.check("C19-R1", "default validity <= 14 days", m is not None and int(m.group(1)) <= 14, "Identity::self_signed validity is %s days; W3C serverCertificateHashes (and this crate's own verifier) allow at most 14" % (m.group(1) if m else "?"), where(f), key="default validity <= 14 days")
    B = T + "self_signed::SelfSignedIdentityBuilder::"
    for nm, want in (("from_now_utc", "return SelfSignedIdentityBuilder::not_before(self,OffsetDateTime::now_utc())"),
                     ("not_before", "return SelfSignedIdentityBuilder(WantsNotAfter(self.0.sans,not_before))"),
                     ("not_after", "return SelfSignedIdentityBuilder(ReadyToBuild(self.0.sans,self.0.not_before,not_after))"),
                     ("offset_from_not_before", "return SelfSignedIdentityBuilder::not_after(self,<OffsetDateTime as Add<SignedDuration>>::add(self.0.not_before,offset))"),
                     ("validity_days", "return SelfSignedIdentityBuilder::offset_from_not_before(self,SignedDuration::days((days as i64)))")):
        g = A.fn(B + nm)
        s2 = [path_sig(p)[1] for p in nonpanic(walk(g))]
        ctx.check("C19-R1", "builder::" + nm, s2 == [want], "SelfSignedIdentityBuilder::%s is %s, expected %s" % (nm, s2, want), where(g))
    g = A.fn(B + "build")
    with depth_limit(8):
        okp = [p for p in nonpanic(walk(g)) if path_sig(p)[1].startswith("return Result::Ok(Identity(")]
        ev = [e for p in okp for e in event_strs(p)]
    ctx.check("C19-R1", "key algorithm ECDSA P-256", any(e == "KeyPair::generate_for(PKCS_ECDSA_P256_SHA256)" for e in ev), "build() does not generate the key with &PKCS_ECDSA_P256_SHA256: %s" % [e for e in ev if "generate_for" in e][:1], where(g))
    ctx.check("C19-R1", "SANs unchanged", any(e == "CertificateParams::new(self.0.sans)" for e in ev), "build() does not pass the requested SANs to CertificateParams::new", where(g))
    ctx.check("C19-R1", "not_before unchanged", any(e == "store ok(CertificateParams::new(self.0.sans)).not_before := self.0.not_before" for e in ev), "build() does not copy not_before into the certificate parameters", where(g))
    ctx.check("C19-R1", "not_after unchanged", any(e == "store ok(CertificateParams::new(self.0.sans)).not_after := self.0.not_after" for e in ev), "build() does not copy not_after into the certificate parameters", where(g))
    ctx.check("C19-R1", "self-signed with the generated key", any(re.match(r"^CertificateParams::self_signed\(ok\(CertificateParams::new\(self\.0\.sans\)\),Result::expect\(KeyPair::generate_for\(PKCS_ECDSA_P256_SHA256\),", e) for e in ev), "build() does not self-sign with the generated key pair", where(g))
    g2 = A.find1(r"^wtransport::tls::self_signed::SelfSignedIdentityBuilder::subject_alt_names$")
    s2 = [path_sig(p)[1] for p in nonpanic(walk(g2))]
    ctx.check("C19-R1", "subject_alt_names collects every given name", len(s2) == 1 and "WantsValidityPeriod(Iterator::collect(Iterator::map(" in s2[0].replace("<I as IntoIterator>::into_iter", "").replace("IntoIterator::into_iter", "") or (len(s2) == 1 and "WantsValidityPeriod(" in s2[0] and "collect(" in s2[0]), "subject_alt_names changed: %s" % s2, where(g2))

    ctx.rule("C19-R2", "PEM tags and DER passthrough; every Certificate is built behind validation")
    for fn_, tag, src in (("Certificate::to_pem", "CERTIFICATE", "Certificate::der(self)"), ("PrivateKey::to_secret_pem", "PRIVATE KEY", "PrivateKey::secret_der(self)")):
        g = A.fn(T + fn_)
        s2 = [path_sig(p)[1] for p in nonpanic(walk(g))]
        ctx.check("C19-R2", fn_, s2 == ["return encode(Pem::new('%s',%s))" % (tag, src)], "%s is not pem::encode(Pem::new(%r, der)): %s" % (fn_, tag, s2), where(g))
    g = A.fn(T + "Certificate::der")
    s2 = [path_sig(p)[1] for p in nonpanic(walk(g))]
    ctx.check("C19-R2", "Certificate::der", s2 == ["return self.0"] or (len(s2) == 1 and re.match(r"^return (<CertificateDer as Deref>::deref\(self\.0\)|self\.0)$", s2[0])), "Certificate::der does not return the stored DER: %s" % s2, where(g))
    g = A.fn(T + "Certificate::from_der")
    sg2 = sorted(path_sig(p) for p in nonpanic(walk(g)))
    ctx.check("C19-R2", "from_der validates before constructing", [l for _, l in sg2 if l.startswith("return Result::Ok")] == ["return Result::Ok(Certificate(<CertificateDer as From<Vec<u8>>>::from(der)))"] and
              all(a == ("<X509Certificate as FromDer<X509Error>>::from_der(der) ok",) for a, l in sg2 if l.startswith("return Result::Ok")), "Certificate::from_der constructs without a successful X509 parse: %s" % sg2, where(g))
    sites = set()
    for fn2, p, ops, atoms in construction_sites(A, "wtransport::tls::Certificate"):
        if "::tests::" not in fn2.path:
            sites.add(fn2.path)
    allowed = {T + "Certificate::from_der", T + "Certificate::from_rustls_pki", B + "build", "<wtransport::tls::Certificate as std::clone::Clone>::clone"}
    ctx.check("C19-R2", "who constructs Certificate", sites <= allowed and ((T + "Certificate::from_der") in sites or (T + "Certificate::from_rustls_pki") in sites), "Certificate(..) is constructed outside the validated constructors: %s" % sorted(sites - allowed))
    for loader in ("Certificate::load_pemfile", "CertificateChain::load_pemfile"):
        fs = [x for x in A.fn_list if x.path.startswith(T + loader) and x.body]
        calls = {bb["t"]["f"].get("path") for x in fs for bb in x.body["blocks"] if bb["t"]["k"] == "call"}
        ctx.check("C19-R2", "%s goes through from_der" % loader, (T + "Certificate::from_der") in calls, "%s does not validate certificates through Certificate::from_der" % loader)
    g = A.fn(T + "Certificate::hash")
    s2 = [path_sig(p)[1] for p in nonpanic(walk(g))]
    ctx.check("C19-R2", "Certificate::hash = SHA-256(der)", s2 == ["return Sha256Digest(<D as Digest>::digest(Certificate::der(self)))"], "Certificate::hash changed: %s" % s2, where(g))

    ctx.rule("C19-R3", "digest text formats: formatter and parser agree per format")
    g = A.fn(T + "Sha256Digest::from_str_fmt")
    with depth_limit(10):
        ps = nonpanic(walk(g))
        evb = [e for p in ps if any(a == "fmt is BytesArray" for a in path_sig(p)[0]) for e in event_strs(p)]
        evd = [e for p in ps if any(a == "fmt is DottedHex" for a in path_sig(p)[0]) for e in event_strs(p)]
    ctx.check("C19-R3", "BytesArray parser: trim '[' ']' split ','", any(re.match(r"^<impl str>::trim_start_matches\(.*,91\)$", e) for e in evb) and any(re.match(r"^<impl str>::trim_end_matches\(.*,93\)$", e) for e in evb) and any(re.match(r"^<impl str>::split\(.*,44\)$", e) for e in evb),
              "BytesArray parsing is not trim('[').trim(']').split(','): %s" % [e[:60] for e in evb[:4]], where(g))
    ctx.check("C19-R3", "DottedHex parser: split ':'", any(re.match(r"^<impl str>::split\(.*,58\)$", e) for e in evd), "DottedHex parsing does not split on ':'", where(g))
    # the parser family: from_str_fmt with its closures and nested helper functions (whatever they are called)
    import rules.C11 as c11
    import pathwalk
    voc = pathwalk.vocab()
    clo = c11.closure_of(A, [g])
    FN = [x for p_, x in sorted(clo.items()) if x.body and (x.path.startswith(T + "Sha256Digest::from_str_fmt") or (voc and x.path not in voc and x.crate == "wtransport"))]
    calls = []
    for x in FN:
        for p in walk(x):
            for e in p.events:
                if e[0] == "call":
                    calls.append((x, e))
    names = {e[1] for _, e in calls}
    TRUNC = re.compile(r"Iterator::(zip|take|take_while|skip|skip_while|step_by|filter|filter_map|map_while|nth|last|scan|find|find_map|position|min|max|reduce)$"
                       r"|<impl str>::(splitn|rsplitn|split_once|rsplit_once|split_terminator|split_whitespace|split_ascii_whitespace|get|get_unchecked|split_at|char_indices)$"
                       r"|<impl \[T\]>::(first|last|get|split_at|chunks|chunks_exact|windows|iter)$|Vec::<.*>::truncate$|Vec::truncate$")
    bad = sorted(n for n in names if TRUNC.search(n))
    ctx.check("C19-R3", "every token reaches the element parser (no truncating / skipping adaptor)", not bad,
              "Sha256Digest::from_str_fmt (or a helper of it) uses %s: components of the text can be dropped without being parsed or counted, "
              "so malformed text with a valid prefix is accepted" % bad, where(g), key="digest parser: no truncating adaptor")
    dec = [(x, e) for x, e in calls if e[1].endswith("<impl str>::parse")]
    t0 = {tuple(e[5].get("targs", [])) for _, e in dec}
    ctx.check("C19-R3", "BytesArray element: decimal u8", bool(dec) and t0 == {("u8",)} and all(re.match(r"^<impl str>::parse\(<impl str>::trim\(", canon(("call", e[1], e[2], 0))) for _, e in dec)
              or any(canon(e[2][1]) == "10" for _, e in calls if e[1].endswith("::from_str_radix")),
              "BytesArray elements are not parsed as trimmed decimal u8: %s" % t0, where(g))
    rad = sorted({canon(e[2][1]) for _, e in calls if e[1].endswith("::from_str_radix")})
    ctx.check("C19-R3", "DottedHex element: radix 16 u8", "16" in rad and set(rad) <= {"16", "10"} and all(e[1].endswith("<impl u8>::from_str_radix") for _, e in calls if e[1].endswith("::from_str_radix")),
              "DottedHex elements are not parsed with u8::from_str_radix(_, 16): radices %s" % rad, where(g))
    with depth_limit(10):
        okp = [p for p in ps if path_sig(p)[1].startswith("return Result::Ok(")]
    tt = {tuple(e[5].get("targs", [])) for p in ps for e in p.events if e[0] == "call" and e[1].endswith("TryInto<U>>::try_into")}
    exact = bool(okp) and bool(tt) and all(len(t) == 2 and t[1] == "[u8; 32]" and re.match(r"^(std::vec::Vec<u8>|\[u8\]|std::boxed::Box<\[u8\]>)$", t[0]) for t in tt) and \
        all(any(re.search(r"TryInto<U>>::try_into\(.*\) ok$", a) for a in path_sig(p)[0]) for p in okp)
    ctx.check("C19-R3", "exactly 32 components: Ok only after a successful Vec<u8> -> [u8; 32] conversion", exact,
              "the accepting paths of from_str_fmt are not all guarded by a successful conversion of the whole parsed sequence into [u8; 32] "
              "(conversions seen: %s): a wrong number of components is not refused on every path" % sorted(tt), where(g), key="digest parser: exact length")
    ctx.count("digest_parser_family_fns", len(FN))
    ctx.floor("C19-R3", "digest parser family", len(FN), 1)
    g = A.fn(T + "Sha256Digest::fmt")
    with depth_limit(10):
        sg2 = {tuple(path_sig(p)[0]): path_sig(p)[1] for p in nonpanic(walk(g))}
    lb = sg2.get(("fmt is BytesArray",), "")
    ld = sg2.get(("fmt is DottedHex",), "")
    ctx.check("C19-R3", "BytesArray formatter = {:?} of the array", "Argument::new_debug(self.0)" in lb.replace("*", "&") or "new_debug(" in lb, "BytesArray formatting is not Debug of the byte array: %s" % lb[:120], where(g))
    # the DottedHex arm, whatever its shape (iterator chain with a closure, or an explicit loop): every text it builds, with its closures
    with depth_limit(12):
        fam = [x for x in A.fn_list if x.body and x.path.startswith(T + "Sha256Digest::fmt::{closure")]
        texts = []
        for p in walk(g):
            if any(a == "fmt is DottedHex" for a in path_sig(p)[0]):
                texts += event_strs(p) + [path_sig(p)[1]]
        for x in fam:
            for p in walk(x):
                texts += event_strs(p) + [path_sig(p)[1]]
    ctx.check("C19-R3", "DottedHex formatter joined by ':'", any(re.search(r"join\(.*,':'\)", t_) for t_ in texts), "DottedHex formatting does not join with ':': %s" % ld[:160], where(g))
    ctx.check("C19-R3", "DottedHex element formatter is hexadecimal", any(re.search(r"Argument::new_(lower|upper)_hex\(", t_) for t_ in texts), "DottedHex elements are not formatted in hexadecimal", where(g))
    g = A.fn("<wtransport::tls::Sha256Digest as std::str::FromStr>::from_str")
    sg = sorted(path_sig(p) for p in nonpanic(walk(g)))
    BA = "Sha256Digest::from_str_fmt(s,Sha256DigestFmt::BytesArray)"
    want = sorted([((BA + " ok",), "return Result::Ok(ok(%s))" % BA), ((BA + " fails",), "return Sha256Digest::from_str_fmt(s,Sha256DigestFmt::DottedHex)")])
    ctx.check("C19-R3", "FromStr tries both formats", sg == want,
              "Sha256Digest::from_str is not `from_str_fmt(s, BytesArray)` and, when that fails, `from_str_fmt(s, DottedHex)`: %s" % sg, where(g))

    ctx.rule("C19-R5", "a generated certificate is accepted by pinning configured with its own hash, however the pin set was built")
    from rules import shared
    shared.hash_pin_set(ctx, "C19-R5")

    ctx.rule("C19-R6", "store-then-load: the PEM writers replace the destination file (create + truncate), so what is loaded back is what was stored")
    for nm in ("Certificate::store_pemfile", "CertificateChain::store_pemfile", "PrivateKey::store_secret_pemfile"):
        gg = A.find1(r"^wtransport::tls::%s::\{closure#0\}$" % nm)
        opens = set()
        trunc = False
        for p in walk(gg):
            for e in p.events:
                if e[0] == "call" and e[1].endswith("OpenOptions::truncate") and len(e[2]) == 2 and canon(e[2][1]) in ("1", "true"):
                    trunc = True
                if e[0] == "call" and re.search(r"(^|::)fs::(File::create|File::create_new|write|OpenOptions::open|File::open|File::options)$|OpenOptions::(new|open)$", e[1]):
                    opens.add(e[1].split("fs::")[-1])
        ctx.check("C19-R6", "%s truncates the destination" % nm, bool(opens) and (opens <= {"File::create", "write"} or trunc),
                  "%s opens its destination with %s: without truncation an older, longer file keeps its tail and `load_pemfile` returns certificates that were not stored"
                  % (nm, sorted(opens)), where(gg), key="%s truncates" % nm)

    ctx.rule("C19-R7", "identities and chains of every length round-trip: the identity loader takes the whole chain, the chain loader / writer visit every PEM section / certificate")
    gg = A.find1(r"^wtransport::tls::Identity::load_pemfiles::\{closure#0\}$")
    okl = [path_sig(p)[1] for p in nonpanic(walk(gg)) if path_sig(p)[1].startswith("return Result::Ok(")]
    ctx.check("C19-R7", "Identity::load_pemfiles = (whole chain, key)", okl == ["return Result::Ok(Identity(ok(await(CertificateChain::load_pemfile(cert_pemfile))),ok(await(PrivateKey::load_pemfile(private_key_pemfile)))))"],
              "Identity::load_pemfiles does not build the identity from CertificateChain::load_pemfile(cert file) and PrivateKey::load_pemfile(key file): %s" % okl, where(gg))
    gg = A.find1(r"^wtransport::tls::CertificateChain::load_pemfile::\{closure#0\}$")
    okl = [path_sig(p)[1] for p in nonpanic(walk(gg)) if path_sig(p)[1].startswith("return Result::Ok(")]
    FILEB = r"ok\(await\(read\(AsRef::as_ref\(filepath\)\)\)\)"
    formA = len(okl) == 1 and re.match(r"^return Result::Ok\(CertificateChain(::new)?\(ok\(Iterator::collect\(Iterator::map\((Iterator::enumerate\()?PemObject::pem_slice_iter\(%s\)\)?,closure:[^()]*\)\)\)\)\)$" % FILEB, okl[0]) is not None
    # ... or the same thing as an explicit loop: the iterator is pem_slice_iter(file bytes) (optionally enumerated, no dropping adaptor),
    # Ok is returned only when it is exhausted, and every iteration that goes round again pushed its certificate
    psl = walk(gg)
    its = set()
    for p in psl:
        for a in path_sig(p)[0]:
            m_ = re.match(r"^(<.*? as Iterator>::next\((.*)\)) (ok|fails)$", a)
            if m_ and "pem_slice_iter(" in m_.group(2):
                its.add(m_.group(1))
    formB = False
    if len(its) == 1:
        it = its.pop()
        clean = re.search(r"pem_slice_iter\(%s\)" % FILEB, it) is not None and not re.search(r"::(take|skip|filter|filter_map|step_by|take_while|skip_while|nth|last|rev|peekable|chain|zip)\(", it)
        oks = [p for p in psl if path_sig(p)[1].startswith("return Result::Ok(")]
        rounds = [p for p in psl if p.leaf[0] == "loop" and (it + " ok") in path_sig(p)[0]]
        formB = clean and bool(oks) and all((it + " fails") in path_sig(p)[0] for p in oks) and bool(rounds) and all(any(e.startswith("Vec::push(") for e in event_strs(p)) for p in rounds)
    ctx.check("C19-R7", "CertificateChain::load_pemfile collects every section", formA or formB,
              "CertificateChain::load_pemfile is not `collect(map(pem_slice_iter(file bytes), parse))` over all sections, nor a loop over them that pushes every certificate (a take / skip / filter / first drops certificates of the chain): %s" % okl, where(gg))
    gg = A.find1(r"^wtransport::tls::CertificateChain::store_pemfile::\{closure#0\}$")
    ps_ = nonpanic(walk(gg))
    IT = r"<Iter<T> as Iterator>::next\(<I as IntoIterator>::into_iter\(<impl \[T\]>::iter\(self\.0\)\)\)"
    loops = [p for p in ps_ if p.leaf[0] == "loop"]
    wr = [e for p in loops for e in event_strs(p) if e.startswith("await AsyncWriteExt::write_all(")]
    okw = len(loops) == 1 and len(wr) == 1 and re.match(r"^await AsyncWriteExt::write_all\(ok\(await\(File::create\(filepath\)\)\),String::as_bytes\(Certificate::to_pem\(ok\(%s\)\)\)\)$" % IT, wr[0]) is not None
    done = [path_sig(p) for p in ps_ if path_sig(p)[1] == "return Result::Ok(())"]
    okd = len(done) == 1 and any(re.match(r"^%s fails$" % IT, a) for a in done[0][0])
    ctx.check("C19-R7", "CertificateChain::store_pemfile writes every certificate", okw and okd,
              "CertificateChain::store_pemfile does not write to_pem() of each element of the chain and return Ok only when the iterator is exhausted: writes=%s done=%s" % (wr, [d[0][-2:] for d in done]), where(gg))
    gg = A.fn(T + "Identity::clone_identity")
    okl = [path_sig(p)[1] for p in nonpanic(walk(gg))]
    ctx.check("C19-R7", "Identity::clone_identity clones chain and key", okl == ["return Identity(<CertificateChain as Clone>::clone(self.certificate_chain),PrivateKey::clone_key(self.private_key))"], "Identity::clone_identity changed: %s" % okl, where(gg))

    ctx.rule("C19-R4", "no undischarged panic obligation in the digest / DER / PEM parsers")
    n = 0
    lemma = {
        "Certificate::serial": "expect(\"valid der\"): every Certificate was validated by X509 parsing at construction (C19-R2) or comes from rustls' already-parsed chain",
    }
    for fn2 in A.fn_list:
        if not fn2.body or "::tests::" in fn2.path:
            continue
        if not re.match(r"^(<wtransport::tls::Sha256Digest as std::str::FromStr>::from_str|wtransport::tls::Sha256Digest::from_str_fmt|wtransport::tls::Certificate::(from_der|load_pemfile|serial)|wtransport::tls::(PrivateKey|CertificateChain|Identity)::load_pemfiles?)", fn2.path):
            continue
        for o in obligations.collect(fn2):
            n += 1
            how = obligations.discharge(o)
            for k, why in lemma.items():
                if k in fn2.path and o.kind in ("call:expect",):
                    how = how or ("lemma: " + why)
            ctx.check("C19-R4", o.key, how is not None, "%s: `%s` can panic on malformed input" % (fn2.path, o.text()), o.loc, detail=how)
    ctx.count("parser_obligations", n)
    ctx.ok("C19-R4", "parsers scanned", "%d obligations" % n)
