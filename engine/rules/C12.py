"""C12 — HTTP/3 and WebTransport stream rules are enforced with the prescribed error."""
from rules import shared
import witness

EXPLANATION = ("Decision tables extracted from MIR (every path of the function) are compared, row by row, with reference "
               "tables transcribed from RFC 9114 / draft-ietf-webtrans-http3 (spec/h3.json): the four validate_frame tables, "
               "the eight read_frame(_async) error mappings, uniremote upgrade mappings, the control/QPACK stream runners, "
               "the worker's uni/bidi H3 handlers, every ErrorCode wire value, and the close code used by Worker::run."
               ' Also (C12-R7): on the client side of the CONNECT stream the first non-GREASE response frame must be HEADERS, anything else is H3_FRAME_UNEXPECTED. C12-R8: the driver stream layer between the worker and those tables forwards read_frame / stop / kind to the proto typestate with the own halves of the stream, and the is_empty predicate of every critical-stream slot is `stream.is_none()` (the duplicate-stream rule is stated through it).')
NOT_DECIDED = ["what quinn puts on the wire for close/stop", "frame sequences beyond the per-frame tables and the two state bits (first_frame_done, settings received)"]
TRUSTED = ["rustc nightly MIR construction", "spec/h3.json transcription", "quinn close()/stop() semantics"]


def run(ctx):
    ctx.rule("C12-R7", "client side of the CONNECT stream: the first non-GREASE response frame must be HEADERS, anything else is H3_FRAME_UNEXPECTED")
    shared.connect_response_table(ctx, "C12-R7")
    ctx.rule("C12-R1", "validate_frame tables == reference admission table (4 roles)")
    shared.validate_frame_tables(ctx, "C12-R1")
    ctx.rule("C12-R2", "read_frame / read_frame_async / upgrade error mappings == reference, sibling-equal (8+2)")
    shared.read_frame_maps(ctx, "C12-R2")
    shared.uni_upgrade_maps(ctx, "C12-R2")
    ctx.rule("C12-R5", "ErrorCode / frame / stream / setting registry values == registered values")
    shared.registry_values(ctx, "C12-R5")
    ctx.rule("C12-R3", "control / QPACK stream runners: decision tables == reference (MissingSettings, FrameUnexpected, ClosedCriticalStream)")
    shared.settings_runner_tables(ctx, "C12-R3")
    shared.qpack_runner_tables(ctx, "C12-R3")
    shared.local_settings_run_table(ctx, "C12-R3")
    shared.settings_with_frame_table(ctx, "C12-R3")
    ctx.rule("C12-R4", "worker handlers: duplicate critical streams, first request frame rules, stream-level refusals")
    shared.handle_uni_table(ctx, "C12-R4")
    shared.handle_bi_table(ctx, "C12-R4")
    ctx.rule("C12-R6", "Worker::run closes QUIC with error_code.to_code()")
    shared.worker_run_table(ctx, "C12-R6")
    ctx.rule("C12-R7", "typestate: compile-fail witnesses (no read_frame on local-uni, no write_frame on remote-uni, no frame I/O on the WT stage, upgrade(session_id) only on H3)")
    witness.run(ctx, "C12-R7", {"C12"})
    ctx.rule("C12-R8", "the driver's stream layer hands the rules below it the real stream: read_frame / stop / kind forward to the proto typestate with the stream's own halves; the critical-stream slots' is_empty means `no stream stored`")
    shared.driver_stream_layer(ctx, "C12-R8")
