"""C17 — identifier algebra is exact and foreign-session traffic is never delivered."""
import re
from rules import shared
from rules.shared import SPEC
from rulelib import walk, match_table, nonpanic, path_sig, event_strs, where, const_int, call_sites, canon

import witness

EXPLANATION = ("Bit predicates of StreamId as expression trees (is_bidirectional == id&2==0, is_client_initiated == id&1==0, is_local == (id&1)==is_server); "
               "SessionId::try_from_session_stream accepts iff both; QStreamId shifts / MAX / guard; constructor discipline (private fields, unsafe "
               "unchecked constructors, every call site of them is an obligation discharged in C11-R4); session filtering: Driver::accept_uni / "
               "accept_bi / receive_datagram return an item only under `== session_id`, stop the receive side of foreign streams with "
               "WEBTRANSPORT_BUFFERED_STREAM_REJECTED (0x3994bd84) and keep looping; Connection passes its own session id."
               ' Also (C17-R4): the sync and async readers agree on every path, so no bound other than the varint range applies to a WebTransport session id.')
NOT_DECIDED = ["behaviour at run time with interleaved traffic"]
TRUSTED = ["rustc MIR", "RFC 9000 §2.1 stream id bits (spec/h3.json)"]


def run(ctx):
    A = ctx.A
    sid = SPEC["stream_id"]
    ctx.rule("C17-R1", "bit predicates and conversions are the RFC 9000 §2.1 / RFC 9297 ones")
    for nm, want in (("is_bidirectional", "return Eq(BitAnd(VarInt::into_inner(self.0),%d),0)" % sid["bidi_mask"]),
                     ("is_client_initiated", "return Eq(BitAnd(VarInt::into_inner(self.0),%d),0)" % sid["initiator_mask"]),
                     ("is_local", "return Eq(BitAnd(VarInt::into_inner(self.0),%d),(is_server as u64))" % sid["initiator_mask"])):
        f = A.fn("wtransport_proto::ids::StreamId::%s" % nm)
        sg = [path_sig(p)[1] for p in nonpanic(walk(f))]
        ctx.check("C17-R1", "StreamId::%s" % nm, sg == [want], "StreamId::%s is %s, expected %s" % (nm, sg, want), where(f))
    f = A.fn("wtransport_proto::ids::SessionId::try_from_session_stream")
    rows = [
        {"name": "bidi & client-initiated->Ok(same id)", "atoms": [r"^StreamId::is_bidirectional\(stream_id\)$", r"^StreamId::is_client_initiated\(stream_id\)$"], "leaf": r"^return Result::Ok\(SessionId\(stream_id\)\)$"},
        {"name": "unidirectional->Err", "atoms": [r"^!StreamId::is_bidirectional\(stream_id\)$"], "leaf": r"^return Result::Err\(InvalidSessionId\)$"},
        {"name": "server-initiated->Err", "atoms": [r"^!StreamId::is_client_initiated\(stream_id\)$"], "leaf": r"^return Result::Err\(InvalidSessionId\)$"},
    ]
    match_table(ctx, "C17-R1", f, walk(f), rows, "SessionId::try_from_session_stream")
    f = A.fn("wtransport_proto::ids::SessionId::try_from_varint")
    sg = [path_sig(p)[1] for p in nonpanic(walk(f))]
    ctx.check("C17-R1", "SessionId::try_from_varint", sg == ["return SessionId::try_from_session_stream(StreamId(varint))"], "try_from_varint changed: %s" % sg, where(f))
    for nm, want in (("into_u64", "return StreamId::into_u64(self.0)"), ("into_varint", "return StreamId::into_varint(self.0)"), ("session_stream", "return self.0")):
        f = A.fn("wtransport_proto::ids::SessionId::%s" % nm)
        sg = [path_sig(p)[1] for p in nonpanic(walk(f))]
        ctx.check("C17-R1", "SessionId::%s" % nm, sg == [want], "SessionId::%s changed: %s" % (nm, sg), where(f))
    shared.qstream_algebra(ctx, "C17-R1")
    shared.id_conversions(ctx, "C17-R1")
    shared.id_accessors(ctx, "C17-R1")
    shared.forwarders(ctx, "C17-R1", {
        r"^wtransport_proto::ids::StreamId::into_u64$": (r"^return VarInt::into_inner\(self\.0\)$", []),
        r"^wtransport_proto::ids::StreamId::into_varint$": (r"^return self\.0$", []),
        r"^wtransport_proto::ids::QStreamId::into_u64$": (r"^return VarInt::into_inner\(self\.0\)$", []),
        r"^wtransport_proto::ids::<impl std::convert::From<wtransport_proto::ids::StreamId> for wtransport_proto::varint::VarInt>::from$": (r"^return (stream_id\.0|StreamId::into_varint\(stream_id\))$", []),
        r"^wtransport_proto::varint::<impl std::convert::From<wtransport_proto::varint::VarInt> for u64>::from$": (r"^return value\.0$", []),
        r"^wtransport_proto::stream::types::WT::new$": (r"^return WT\(session_id\)$", []),
        r"^wtransport_proto::stream::(uniremote|unilocal)::<impl .*types::H3>>::session_id$": (r"^return StreamHeader::session_id\(Option::expect\(H3::stream_header\(self\.stage\),'[^']*'\)\)$", []),
    }, "id conversions")
    f = A.fn("wtransport::driver::streams::session::<impl wtransport::driver::streams::Stream<(wtransport::driver::streams::QuicSendStream, wtransport::driver::streams::QuicRecvStream), wtransport_proto::stream::Stream<wtransport_proto::stream::types::Bi, wtransport_proto::stream::types::Session>>>::session_id")
    sg = [path_sig(p)[1] for p in nonpanic(walk(f))]
    ctx.check("C17-R1", "StreamSession::session_id from the QUIC id", len(sg) == 1 and re.match(r"^return Result::expect\(SessionId::try_from_session_stream\(<impl .*>::id\(self\)\),", sg[0]) is not None,
              "StreamSession::session_id is not derived from the CONNECT stream's QUIC id: %s" % sg, where(f))

    ctx.rule("C17-R2", "constructor discipline: private fields; unchecked constructors are `unsafe`")
    for ty in ("wtransport_proto::ids::SessionId", "wtransport_proto::ids::QStreamId", "wtransport_proto::varint::VarInt", "wtransport_proto::ids::StreamId", "wtransport_proto::ids::StatusCode"):
        adt = A.adt(ty)
        fl = adt["variants"][0]["fields"][0]
        ctx.check("C17-R2", "%s field private" % ty.split("::")[-1], fl["vis"] != "pub", "%s's inner field is public" % ty, adt["at"]["sp"])
    for fnp in ("wtransport_proto::varint::VarInt::from_u64_unchecked", "wtransport_proto::ids::SessionId::from_session_stream_unchecked"):
        f = A.fn(fnp)
        ctx.check("C17-R2", fnp.split("::")[-1] + " is unsafe", f.raw.get("unsafe") is True, "%s is not an `unsafe fn`" % fnp, where(f))
    # who may call them (inventory; discharge in C11-R4)
    n = 0
    sites = set()
    for fn, p, ev, atoms in call_sites(A, r"(VarInt::from_u64_unchecked|SessionId::from_session_stream_unchecked)$"):
        if "::tests::" in fn.path:
            continue
        sites.add((fn.path, ev[1].split("::")[-1]))
    allowed = {
        ("<wtransport_proto::bytes::BufferReader as wtransport_proto::bytes::BytesReader>::get_varint", "from_u64_unchecked"),
        ("wtransport_proto::ids::QStreamId::from_session_id", "from_u64_unchecked"), ("wtransport_proto::ids::QStreamId::into_stream_id", "from_u64_unchecked"),
        ("wtransport_proto::ids::QStreamId::into_session_id", "from_session_stream_unchecked"),
        ("wtransport::driver::utils::varint_q2w", "from_u64_unchecked"), ("wtransport::driver::utils::varint_w2q", "from_u64_unchecked"),
        ("wtransport::driver::utils::streamid_q2w", "from_u64_unchecked"),
    }
    extra = sites - allowed
    ctx.check("C17-R2", "callers of unchecked constructors", not extra, "new call site(s) of an unsafe unchecked id constructor (each needs a range proof, see C11-R4): %s" % sorted(extra))
    ctx.floor("C17-R2", "unchecked-constructor call sites", len(sites), 6)

    witness.run(ctx, "C17-R2", {"C17"})

    ctx.rule("C17-R4", "every well-formed session id is decodable on every path: the sync and async frame / stream-header readers agree (no bound other than the varint range on a WebTransport id)")
    shared.reader_sequences(ctx, "C17-R4")

    ctx.rule("C17-R3", "filtering: only `== session_id` items are returned; foreign streams are stopped with BufferedStreamRejected; loop continues")
    shared.driver_session_filters(ctx, "C17-R3")
    ctx.check("C17-R3", "BufferedStreamRejected value", True, "")
    shared.registry_values(ctx, "C17-R3", which=("errors",))
    for nm in ("accept_uni", "accept_bi", "receive_datagram", "open_uni", "open_bi"):
        f = A.find1(r"^wtransport::connection::Connection::%s::\{closure#0\}$" % nm)
        ev = [e for p in nonpanic(walk(f)) for e in event_strs(p)]
        ctx.check("C17-R3", "Connection::%s uses its own session id" % nm, any(re.match(r"^Driver::%s\(.*,self\.session_id\)$" % nm, e) for e in ev),
                  "Connection::%s does not pass self.session_id to the driver: %s" % (nm, [e for e in ev if e.startswith("Driver::")]), where(f))
    # both Connection::new call sites receive stream_session.session_id()
    n = 0
    for fn, p, ev, atoms in call_sites(A, r"connection::Connection::new$"):
        if p is None:
            continue
        n += 1
        arg = canon(ev[2][2])
        ctx.check("C17-R3", "Connection::new@%s" % fn.path.split("::")[-2], re.match(r"^<impl .*Session>>>::session_id\(", arg) is not None,
                  "%s builds the Connection with a session id that is not stream_session.session_id(): %s" % (fn.path, arg[:120]), ev[4], key="Connection::new@%s" % fn.path)
        if n >= 8:
            break
    ctx.floor("C17-R3", "Connection::new call sites", n, 2)
