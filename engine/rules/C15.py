"""C15 — all decoding paths agree and incomplete input is never consumed."""
from rules import shared
from rules.C05 import eof_rules

EXPLANATION = ("Sibling agreement of the hand-duplicated decoders: Frame::read == Frame::read_async and StreamHeader::read == read_async as "
               "wire I/O sequences (same fields, same branch atom, same payload-cap comparator and constant, same error constructor at the same "
               "position); commit-or-drop in the six *_from_buffer wrappers (commit() exactly on the Some path, parent untouched otherwise); EOF "
               "classes (ImmediateFin iff nothing read; non-first fields remap to UnexpectedFin); the eight typestate error mappings are equal "
               "tables; the four poll loops pass exactly the remaining field slice, advance by the returned count and finish at the field length."
               ' Also (C15-R6/R7): the async source adapter reports exactly the bytes that arrived; the slice decoder consumes encoded (not minimal) lengths; cursor accessors as in C14.')
NOT_DECIDED = ["equality of returned values for every input (value-level)", "behaviour of third-party AsyncRead implementations"]
TRUSTED = ["rustc MIR", "octets::Octets cursor semantics"]


def run(ctx):
    ctx.rule("C15-R7", "the slice decoder consumes the same bytes as the buffered / async ones: encoded length, not minimal length")
    shared.slice_reader_advance(ctx, "C15-R7")
    shared.buffer_accessors(ctx, "C15-R7")
    ctx.rule("C15-R6", "the async source adapter reports exactly the bytes that arrived (a short read is not taken for a full one)")
    shared.proto_io_adapters(ctx, "C15-R6")
    ctx.rule("C15-R1", "sync == async decoder as I/O sequences (Frame, StreamHeader)")
    shared.reader_sequences(ctx, "C15-R1")
    ctx.rule("C15-R2", "commit-or-drop: commit() only on the Some path of the six *_from_buffer wrappers")
    shared.from_buffer_commit(ctx, "C15-R2")
    ctx.rule("C15-R3", "EOF classes: ImmediateFin iff offset == 0; later fields map ImmediateFin -> UnexpectedFin")
    eof_rules(ctx, "C15-R3")
    ctx.rule("C15-R4", "eight typestate read_frame mappings sibling-equal (+ uniremote upgrade pair)")
    shared.read_frame_maps(ctx, "C15-R4")
    shared.uni_upgrade_maps(ctx, "C15-R4")
    ctx.rule("C15-R5", "poll loops: remaining-slice, advance by count, finish at field length")
    shared.poll_loops(ctx, "C15-R5")
