"""C20 — configuration is honoured."""
import re
from rules.shared import SPEC
from rulelib import walk, nonpanic, path_sig, event_strs, where, depth_limit, canon, match_table, variant_table
from pathwalk import const_val

import witness

EXPLANATION = ("Preset tables IpBindConfig::into_ip / into_dual_stack_config == the documented presets; BindAddressConfig::bind_socket: socket domain "
               "follows the address family on every path, Deny -> set_only_v6(true), Allow -> set_only_v6(false), OsDefault -> no call, a pre-bound "
               "socket is returned as is, the socket is bound to the requested address; with_bind_default == InAddrAnyDual (server and client); "
               "setter delegation for both builders: max_idle_timeout converts with IdleTimeout::try_from and fails with InvalidIdleTimeout before "
               "touching the transport config, keep_alive_interval / allow_migration reach quinn's TransportConfig / ServerConfig::migration in "
               "build(); both build_default_tls_config restrict to [TLS13] and set ALPN [WEBTRANSPORT_ALPN]; reload_config rebinds iff asked and "
               "always installs the new server config. Builder typestate witnesses are in the thorough tier. C20-R6: every with_* step of both builders passes the given bind address / socket, TLS config, transport config and DNS resolver on unchanged (defaults only where the caller gave nothing), and build / build_with_quic_config install exactly the stored values.")
NOT_DECIDED = ["kernel socket behaviour", "negotiated transport parameters and timers at run time"]
TRUSTED = ["rustc MIR / const evaluation", "socket2 / quinn / rustls API semantics"]

C = "wtransport::config::"


def run(ctx):
    A = ctx.A
    ctx.rule("C20-R1", "bind presets and socket creation")
    ipnames = {"127.0.0.1": "Ipv4Addr::LOCALHOST", "::1": "Ipv6Addr::LOCALHOST", "0.0.0.0": "Ipv4Addr::UNSPECIFIED", "::": "Ipv6Addr::UNSPECIFIED"}
    presets = [v["name"] for v in A.adt(C + "IpBindConfig")["variants"]]
    ctx.check("C20-R1", "IpBindConfig variants == documented presets", sorted(presets) == sorted(SPEC["bind_presets"]), "IpBindConfig has variants %s, documented presets %s" % (sorted(presets), sorted(SPEC["bind_presets"])))
    f = A.fn(C + "IpBindConfig::into_ip")
    got = {v: sorted({path_sig(p)[1] for p in ps}) for v, ps in variant_table(nonpanic(walk(f)), presets).items()}
    for preset, (ip, ds) in SPEC["bind_presets"].items():
        ctx.check("C20-R1", "into_ip[%s]" % preset, got.get(preset) == ["return " + ipnames[ip]], "IpBindConfig::%s binds %s, documented address is %s" % (preset, got.get(preset), ip), where(f))
    f = A.fn(C + "IpBindConfig::into_dual_stack_config")
    got = {v: sorted({path_sig(p)[1] for p in ps}) for v, ps in variant_table(nonpanic(walk(f)), presets).items()}
    for preset, (ip, ds) in SPEC["bind_presets"].items():
        ctx.check("C20-R1", "into_dual_stack_config[%s]" % preset, got.get(preset) == ["return Ipv6DualStackConfig::" + ds], "IpBindConfig::%s dual-stack mode is %s, documented %s" % (preset, got.get(preset), ds), where(f))
    for cname, dom in (("socket2::Domain::IPV4", 2), ("socket2::Domain::IPV6", 10)):
        pass
    f = A.fn(C + "BindAddressConfig::bind_socket")
    with depth_limit(8):
        ps = nonpanic(walk(f))
        n = 0
        for p in ps:
            at, leaf = path_sig(p)
            ev = event_strs(p)
            # the address family the socket is created for is the variant of the SocketAddr that is bound (whatever expression builds it)
            fam = [re.search(r" is (V4|V6)$", a).group(1) for a in at if re.search(r"SocketAddr.* is (V4|V6)$", a) and not a.startswith("IpBindConfig")]
            news = [e for e in ev if e.startswith("Socket::new(")]
            if any(a == "self is Socket" for a in at):
                ctx.check("C20-R1", "pre-bound socket returned as is", leaf == "return Result::Ok((self as Socket).0)" and not news, "bind_socket does not return a pre-bound socket unchanged: %s" % leaf, where(f))
                continue
            if fam and news:
                n += 1
                want = "Socket::new(Domain::IPV4=2,Type::DGRAM=2,Option::Some(Protocol::UDP=17))" if fam[-1] == "V4" else "Socket::new(Domain::IPV6=10,Type::DGRAM=2,Option::Some(Protocol::UDP=17))"
                ctx.check("C20-R1", "domain follows family|%s|%s" % (fam[-1], news[0][12:25]), news[0] == want, "bind_socket creates %s for a %s address" % (news[0], fam[-1]), where(f), key="domain follows family|%s" % fam[-1])
            mode = [re.search(r" is (OsDefault|Deny|Allow)$", a).group(1) for a in at if re.search(r"^\(self as AddressV6\)\.1 is (OsDefault|Deny|Allow)$", a)]
            v6 = [e for e in ev if e.startswith("Socket::set_only_v6(")]
            if mode:
                exp = {"OsDefault": None, "Deny": "1", "Allow": "0"}[mode[-1]]
                got = v6[0].rsplit(",", 1)[1].rstrip(")") if v6 else None
                ctx.check("C20-R1", "set_only_v6|%s" % mode[-1], got == exp, "dual-stack mode %s results in set_only_v6(%s), expected %s" % (mode[-1], got, exp), where(f), key="set_only_v6|%s" % mode[-1])
            if any(a == "self is AddressV4" for a in at):
                ctx.check("C20-R1", "V4 address: no IPV6_V6ONLY call", not v6, "set_only_v6 is called for an IPv4 bind address", where(f), key="set_only_v6|V4")
            if leaf.startswith("return Result::Ok(<impl From<Socket> for UdpSocket>::from("):
                b = [e for e in ev if e.startswith("Socket::bind(")]
                be = [e for e in p.events if e[0] == "call" and e[1].endswith("Socket::bind") and len(e[2]) == 2]
                addr = canon(be[0][2][1]) if len(be) == 1 else None
                # the whole configured SocketAddrV4 / SocketAddrV6 (ip, port, and for v6 flowinfo and scope id) through std's lossless conversion;
                # an address re-assembled from ip() and port() drops the zone of a link-local address
                okb = addr is not None and re.fullmatch(r"(<SockAddr as From<SocketAddr>>::from\()?(<SocketAddr as From<SocketAddrV([46])>>::from|SocketAddr::V([46]))\(\(self as AddressV([46])\)\.0\)\)?", addr) is not None
                # (an IPv4 socket address has nothing but ip and port: re-assembling it from both is lossless)
                okb = okb or (addr is not None and re.fullmatch(r"(<SockAddr as From<SocketAddr>>::from\()?SocketAddr::new\(IpAddr::V4\(SocketAddrV4::ip\(\(self as AddressV4\)\.0\)\),SocketAddrV4::port\(\(self as AddressV4\)\.0\)\)\)?", addr) is not None)
                ctx.check("C20-R1", "bound to the requested address", okb,
                          "bind_socket binds %s, expected the configured address as a whole (SocketAddr::from((self as AddressV4|V6).0)): rebuilding it from parts loses flowinfo / scope id" % addr, where(f), key="bound to the requested address")
        ctx.floor("C20-R1", "bind_socket socket-creating paths", n, 4)
    for side, args in (("ServerConfigBuilder", "self,IpBindConfig::InAddrAnyDual,listening_port"), ("ClientConfigBuilder", "self,IpBindConfig::InAddrAnyDual")):
        f = A.fn(C + side + "::with_bind_default")
        sg = [path_sig(p)[1] for p in nonpanic(walk(f))]
        ctx.check("C20-R1", "%s::with_bind_default" % side, sg == ["return %s::with_bind_config(%s)" % (side, args)], "%s::with_bind_default is %s" % (side, sg), where(f))
        f = A.fn(C + side + "::with_bind_config")
        with depth_limit(8):
            sg = sorted(path_sig(p) for p in nonpanic(walk(f)))
        v6 = [l for a, l in sg if a and a[-1].endswith(" is V6")]
        v4 = [l for a, l in sg if a and a[-1].endswith(" is V4")]
        port = "listening_port" if side == "ServerConfigBuilder" else "0"
        ctx.check("C20-R1", "%s::with_bind_config v6" % side, len(v6) == 1 and re.match(r"^return %s::with_bind_address_v6\(self,SocketAddrV6::new\(\(IpBindConfig::into_ip\(ip_bind_config\) as V6\)\.0,%s,0,0\),IpBindConfig::into_dual_stack_config\(ip_bind_config\)\)$" % (side, port), v6[0]) is not None,
                  "%s::with_bind_config (v6) does not pass (ip, port, dual-stack mode of the preset): %s" % (side, v6), where(f))
        ctx.check("C20-R1", "%s::with_bind_config v4" % side, len(v4) == 1 and re.match(r"^return %s::with_bind_address\(self,(SocketAddr::new\(.*|SocketAddr::V4\(SocketAddrV4::new\()\(IpBindConfig::into_ip\(ip_bind_config\) as V4\)\.0\)?,%s\)\)?\)$" % (side, port), v4[0]) is not None,
                  "%s::with_bind_config (v4) changed: %s" % (side, v4), where(f))
        f = A.fn(C + side + "::with_bind_address_v6")
        sg = [path_sig(p)[1] for p in nonpanic(walk(f))]
        st = "WantsIdentity" if side == "ServerConfigBuilder" else "WantsRootStore"
        ctx.check("C20-R1", "%s::with_bind_address_v6" % side, sg == ["return %s(%s(BindAddressConfig::AddressV6(address,dual_stack_config)))" % (side, st)], "%s::with_bind_address_v6 changed: %s" % (side, sg), where(f))
    f = A.fn("<wtransport::config::BindAddressConfig as std::convert::From<std::net::SocketAddr>>::from")
    sg = sorted(path_sig(p) for p in nonpanic(walk(f)))
    ctx.check("C20-R1", "From<SocketAddr>", sg == [(("value is V4",), "return BindAddressConfig::AddressV4((value as V4).0)"), (("value is V6",), "return BindAddressConfig::AddressV6((value as V6).0,Ipv6DualStackConfig::OsDefault)")],
              "BindAddressConfig::from(SocketAddr) changed: %s" % sg, where(f))

    ctx.rule("C20-R2", "setter delegation (both builders)")
    for side in ("ServerConfigBuilder", "ClientConfigBuilder"):
        f = A.fn(C + side + "::max_idle_timeout")
        T = r"<IdleTimeout as TryFrom<Duration>>::try_from\(ok\(idle_timeout\)\)"
        rows = [
            {"name": "None->idle timeout disabled", "atoms": [r"^idle_timeout fails$"], "events": [r"^TransportConfig::max_idle_timeout\(self\.0\.transport_config,Option::None\)$"], "leaf": r"^return Result::Ok\(self\)$"},
            {"name": "representable->applied", "atoms": [r"^idle_timeout ok$", r"^%s ok$" % T], "events": [r"^TransportConfig::max_idle_timeout\(self\.0\.transport_config,Option::Some\(ok\(%s\)\)\)$" % T], "leaf": r"^return Result::Ok\(self\)$"},
            {"name": "not representable->refused, config untouched", "atoms": [r"^idle_timeout ok$", r"^%s fails$" % T], "not_events": [r"TransportConfig::"], "leaf": r"^return Result::Err\(InvalidIdleTimeout\)$"},
        ]
        ps = walk(f)
        match_table(ctx, "C20-R2", f, ps, rows, "%s::max_idle_timeout" % side)
        # (the conversion function and the error value are part of the rows above: `<IdleTimeout as TryFrom<Duration>>::try_from`, `InvalidIdleTimeout`)
        f = A.fn(C + side + "::keep_alive_interval")
        ev = [e for p in nonpanic(walk(f)) for e in event_strs(p)]
        ctx.check("C20-R2", "%s::keep_alive_interval" % side, ev == ["TransportConfig::keep_alive_interval(self.0.transport_config,interval)"], "%s::keep_alive_interval does not reach TransportConfig::keep_alive_interval(interval): %s" % (side, ev), where(f))
        f = A.fn(C + side + "::build")
        with depth_limit(10):
            ps = nonpanic(walk(f))
            ev = [e for p in ps for e in event_strs(p)]
            lf = [path_sig(p)[1] for p in ps]
        qc = "ServerConfig" if side == "ServerConfigBuilder" else "ClientConfig"
        ctx.check("C20-R2", "%s::build installs the transport config" % side, any(re.match(r"^%s::transport_config\(.*,Arc::new\(self\.0\.transport_config\)\)$" % qc, e) for e in ev), "%s::build does not install self.0.transport_config" % side, where(f))
        ctx.check("C20-R2", "%s::build uses the given TLS config" % side, any(re.search(r"as TryFrom<%s>>::try_from\(self\.0\.tls_config\)" % qc, e) for e in ev), "%s::build does not build the QUIC crypto from self.0.tls_config" % side, where(f))
        ctx.check("C20-R2", "%s::build keeps bind / endpoint config" % side, len(lf) == 1 and lf[0].startswith("return %s(self.0.bind_address_config,self.0.endpoint_config," % qc), "%s::build changed: %s" % (side, [l[:80] for l in lf]), where(f))
        if side == "ServerConfigBuilder":
            ctx.check("C20-R2", "build applies migration", any(re.match(r"^ServerConfig::migration\(.*,self\.0\.migration\)$", e) for e in ev), "ServerConfigBuilder::build does not apply self.0.migration", where(f))
    f = A.fn(C + "ServerConfigBuilder::allow_migration")
    ev = [e for p in nonpanic(walk(f)) for e in event_strs(p)]
    ctx.check("C20-R2", "allow_migration stores the flag", ev == ["store self.0.migration := value"], "allow_migration does not store the value: %s" % ev, where(f))

    ctx.rule("C20-R3", "TLS 1.3 only, ALPN h3 (client and server default TLS configs)")
    for side in ("client", "server"):
        f = A.fn("wtransport::tls::%s::build_default_tls_config" % side)
        with depth_limit(12):
            ps = nonpanic(walk(f))
            ev = [e for p in ps for e in event_strs(p)]
        pv = [e for e in ev if e.startswith("ConfigBuilder::with_protocol_versions(")]
        ctx.check("C20-R3", "%s: protocol versions == [TLS13]" % side, bool(pv) and all(re.search(r",\(\[TLS13\] as &\[&(rustls::)?SupportedProtocolVersion\]\)\)$", e) is not None for e in pv),
                  "%s build_default_tls_config does not restrict to exactly [TLS13]: %s" % (side, [e[-80:] for e in pv]), where(f))
        al = [e for e in ev if e.startswith("store ") and ".alpn_protocols :=" in e]
        ctx.check("C20-R3", "%s: ALPN == [WEBTRANSPORT_ALPN]" % side, bool(al) and all(re.search(r":= <impl \[T\]>::to_vec\(.*\[<impl \[T\]>::to_vec\(.*WEBTRANSPORT_ALPN.*\)\]", e) is not None for e in al),
                  "%s build_default_tls_config does not set alpn_protocols = [WEBTRANSPORT_ALPN]: %s" % (side, [e[:160] for e in al]), where(f))

    ctx.rule("C20-R4", "reload_config: rebind iff requested; always installs the new server config")
    f = A.fn("wtransport::endpoint::Endpoint::reload_config")
    SET = r"^Endpoint::set_server_config\(self\.endpoint,Option::Some\(server_config\.quic_config\)\)$"
    rows = [
        {"name": "no rebind->install config only", "atoms": [r"^!rebind$"], "events": [SET], "not_events": [r"Endpoint::rebind", r"bind_socket"], "leaf": r"^return Result::Ok\(\(\)\)$"},
        {"name": "rebind ok->rebind then install", "atoms": [r"^rebind$", r"^Endpoint::rebind\(.*\) ok$"], "events": [r"^Endpoint::rebind\(self\.endpoint,ok\(BindAddressConfig::bind_socket\(server_config\.bind_address_config\)\)\)$", SET], "leaf": r"^return Result::Ok\(\(\)\)$"},
        {"name": "bind fails->error", "atoms": [r"^BindAddressConfig::bind_socket\(.*\) fails$"], "leaf": r"^return Result::Err\(err\(BindAddressConfig::bind_socket"},
        {"name": "rebind fails->error", "atoms": [r"^Endpoint::rebind\(.*\) fails$"], "leaf": r"^return Result::Err\(err\(Endpoint::rebind"},
    ]
    match_table(ctx, "C20-R4", f, walk(f), rows, "Endpoint::reload_config")
    for nm, qcfg in (("server", "Option::Some(server_config.quic_config)"), ("client", "Option::None")):
        f = A.fn("wtransport::endpoint::Endpoint::%s" % nm)
        with depth_limit(8):
            ev = [e for p in nonpanic(walk(f)) for e in event_strs(p)]
        cfgv = "server_config" if nm == "server" else "client_config"
        ctx.check("C20-R4", "Endpoint::%s binds the configured socket" % nm, any(e == "BindAddressConfig::bind_socket(%s.bind_address_config)" % cfgv for e in ev), "Endpoint::%s does not bind %s.bind_address_config" % (nm, cfgv), where(f))
        ctx.check("C20-R4", "Endpoint::%s passes the quic config" % nm, any(re.match(r"^Endpoint::new\(%s\.endpoint_config,%s," % (cfgv, re.escape(qcfg)), e) for e in ev), "Endpoint::%s does not create the quinn endpoint with the configured endpoint/quic config" % nm, where(f))
    f = A.fn("wtransport::endpoint::Endpoint::client")
    with depth_limit(8):
        ev = [e for p in nonpanic(walk(f)) for e in event_strs(p)]
    ctx.check("C20-R4", "client installs its quic config as default", any(re.match(r"^Endpoint::set_default_client_config\(.*,client_config\.quic_config\)$", e) for e in ev), "Endpoint::client does not install client_config.quic_config", where(f))

    ctx.rule("C20-R6", "what the builder is given is what is built: bind address / socket, TLS config, transport config and resolver flow unchanged through with_* into the built config")
    DEF_E = "<EndpointConfig as Default>::default()"
    DEF_T = "<TransportConfig as Default>::default()"
    NATIVE = "build_default_tls_config(Arc::new(build_native_cert_store()),Option::None)"
    DNS = "(<Arc<T> as Default>::default() as std::sync::Arc<dyn wtransport::config::DnsResolver + std::marker::Send + std::marker::Sync>)"
    flow = {
        "ServerConfigBuilder::with_bind_address": ("return ServerConfigBuilder(WantsIdentity(<BindAddressConfig as From<SocketAddr>>::from(address)))", "return ServerConfigBuilder(WantsIdentity(address))"),
        "ServerConfigBuilder::with_bind_socket": "return ServerConfigBuilder(WantsIdentity(BindAddressConfig::Socket(socket)))",
        "ServerConfigBuilder::with_identity": "return ServerConfigBuilder::with(self,build_default_tls_config(identity),%s,%s)" % (DEF_E, DEF_T),
        "ServerConfigBuilder::with_custom_tls": "return ServerConfigBuilder::with(self,tls_config,%s,%s)" % (DEF_E, DEF_T),
        "ServerConfigBuilder::with_custom_transport": "return ServerConfigBuilder::with(self,build_default_tls_config(identity),%s,quic_transport_config)" % DEF_E,
        "ServerConfigBuilder::with_custom_tls_and_transport": "return ServerConfigBuilder::with(self,tls_config,%s,quic_transport_config)" % DEF_E,
        "ServerConfigBuilder::with": "return ServerConfigBuilder(WantsTransportConfigServer(self.0.bind_address_config,tls_config,endpoint_config,transport_config,1))",
        "ServerConfigBuilder::build_with_quic_config": "return ServerConfig(self.0.bind_address_config,%s,quic_config)" % DEF_E,
        "ClientConfigBuilder::with_bind_address": ("return ClientConfigBuilder(WantsRootStore(<BindAddressConfig as From<SocketAddr>>::from(address)))", "return ClientConfigBuilder(WantsRootStore(address))"),
        "ClientConfigBuilder::with_bind_socket": "return ClientConfigBuilder(WantsRootStore(BindAddressConfig::Socket(socket)))",
        "ClientConfigBuilder::with_native_certs": "return ClientConfigBuilder::with(self,%s,%s,%s)" % (NATIVE, DEF_E, DEF_T),
        "ClientConfigBuilder::with_custom_tls": "return ClientConfigBuilder::with(self,tls_config,%s,%s)" % (DEF_E, DEF_T),
        "ClientConfigBuilder::with_custom_transport": "return ClientConfigBuilder::with(self,%s,%s,quic_transport_config)" % (NATIVE, DEF_E),
        "ClientConfigBuilder::with_custom_tls_and_transport": "return ClientConfigBuilder::with(self,tls_config,%s,quic_transport_config)" % DEF_E,
        "ClientConfigBuilder::with": "return ClientConfigBuilder(WantsTransportConfigClient(self.0.bind_address_config,tls_config,endpoint_config,transport_config,%s))" % DNS,
        "ClientConfigBuilder::build_with_quic_config": "return ClientConfig(self.0.bind_address_config,%s,quic_config,%s)" % (DEF_E, DNS),
    }
    for nm, want in flow.items():
        f = A.fn(C + nm)
        with depth_limit(10):
            sg = [path_sig(p)[1] for p in nonpanic(walk(f))]
        wants = want if isinstance(want, tuple) else (want,)   # (`T::from(x)` and `x.into()` are one conversion, spelled twice)
        ctx.check("C20-R6", nm, len(sg) == 1 and sg[0] in wants, "%s does not pass its arguments on unchanged: %s, expected %s" % (nm, sg, wants[0]), where(f), key="builder flow|%s" % nm)
    f = A.fn(C + "ClientConfigBuilder::dns_resolver")
    ps = nonpanic(walk(f))
    ev = [e for p in ps for e in event_strs(p) if e.startswith("store ")]
    ctx.check("C20-R6", "ClientConfigBuilder::dns_resolver stores the resolver", len(ps) == 1 and path_sig(ps[0])[1] == "return self" and len(ev) == 1 and ev[0].startswith("store self.0.dns_resolver := (Arc::new(dns_resolver) as "),
              "ClientConfigBuilder::dns_resolver does not store the given resolver: %s" % ev, where(f))
    f = A.fn(C + "ClientConfig::set_dns_resolver")
    ev = [e for p in nonpanic(walk(f)) for e in event_strs(p) if e.startswith("store ")]
    ctx.check("C20-R6", "ClientConfig::set_dns_resolver stores the resolver", len(ev) == 1 and ev[0].startswith("store self.dns_resolver := (Arc::new(dns_resolver) as "), "ClientConfig::set_dns_resolver does not store the given resolver: %s" % ev, where(f))
    f = A.fn(C + "ClientConfigBuilder::build")
    with depth_limit(10):
        lf = [path_sig(p)[1] for p in nonpanic(walk(f))]
    ctx.check("C20-R6", "ClientConfigBuilder::build keeps the resolver", len(lf) == 1 and re.search(r",\(self\.0\.dns_resolver as [^()]*\)\)$", lf[0]) is not None, "ClientConfigBuilder::build does not install self.0.dns_resolver: %s" % [l[-120:] for l in lf], where(f))

    ctx.rule("C20-R5", "builder typestate: compile-fail witnesses (build() before identity / trust policy; binding twice)")
    witness.run(ctx, "C20-R5", {"C20"})
