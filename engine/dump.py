import json,glob,sys
def short(o):
    return json.dumps(o, separators=(',',':'))
def pl(p):
    s='_%d'%p['l']
    for e in p['p']:
        if e=='*': s='(*%s)'%s
        elif isinstance(e,dict) and 'f' in e: s='%s.%d'%(s,e['f'])
        elif isinstance(e,dict) and 'dc' in e: s='(%s as %s)'%(s,e['dc'])
        elif isinstance(e,dict) and 'idx' in e: s='%s[_%d]'%(s,e['idx'])
        else: s='%s{%s}'%(s,short(e))
    return s
def cst(c):
    if 'fn' in c: return 'fn:'+c['fn']
    if 'uneval' in c:
        v=c.get('val')
        return 'C:%s=%s'%(c['uneval'], cst(v) if v else '?')
    if 'int' in c: return '%s:%s'%(c['int'],c['ty'])
    if 'str' in c: return repr(c['str'])
    return c.get('disp','?')
def op(o):
    if o['k'] in('copy','move'): return ('' if o['k']=='copy' else 'move ')+pl(o['pl'])
    if o['k']=='const': return cst(o['c'])
    return short(o)
def rv(r):
    k=r['k']
    if k=='use': return op(r['op'])
    if k=='ref': return ('&mut ' if r['mut'] else '&')+pl(r['pl'])
    if k=='rawptr': return '&raw '+pl(r['pl'])
    if k=='cast': return '%s as %s (%s)'%(op(r['op']),r['ty'],r['ck'])
    if k=='bin': return '%s(%s, %s)'%(r['op'],op(r['a']),op(r['b']))
    if k=='un': return '%s(%s)'%(r['op'],op(r['a']))
    if k=='discr': return 'discr(%s)'%pl(r['pl'])
    if k=='agg':
        ak=r['ak']
        name = r.get('adt','')+'::'+r.get('variant','') if ak=='adt' else ak+':'+r.get('did',r.get('ty',''))
        return '%s(%s)'%(name, ', '.join(op(x) for x in r['ops']))
    if k=='repeat': return '[%s; %s]'%(op(r['op']),r['n'])
    return short(r)
def dump_body(b, out=sys.stdout):
    for i,l in enumerate(b['locals']): print('  let _%d: %s%s'%(i,l['ty'],' // '+l['name'] if 'name' in l else ''),file=out)
    for u in b.get('upnames',[]): print('  upvar',u['name'],pl(u['pl']),file=out)
    for i,bb in enumerate(b['blocks']):
        print(' bb%d%s:'%(i,' (cleanup)' if bb['cleanup'] else ''),file=out)
        for s in bb['s']:
            if s['k']=='assign': print('    %s = %s'%(pl(s['pl']),rv(s['rv'])),file=out)
            elif s['k']=='setdiscr': print('    discr(%s) = %d'%(pl(s['pl']),s['v']),file=out)
            else: print('    ',short(s),file=out)
        t=bb['t']; k=t['k']; at=t['at']; loc=at['sp']+((' <'+','.join(at['mac'])+'>') if 'mac' in at else '')
        if k=='call':
            f=t['f']; name=f.get('resolved') or f.get('path') or f.get('indirect')
            print('    %s = %s(%s) -> bb%s unwind %s   @%s'%(pl(t['dest']),name,', '.join(op(a) for a in t['args']),t['t'],t['unwind'],loc),file=out)
            if f.get('cargs'): print('        cargs',f['cargs'],file=out)
        elif k=='switch': print('    switch(%s: %s) %s else bb%d   @%s'%(op(t['discr']),t['dty'],t['arms'],t['otherwise'],loc),file=out)
        elif k=='goto': print('    goto bb%d'%t['t'],file=out)
        elif k=='drop': print('    drop(%s: %s) -> bb%d unwind %s'%(pl(t['pl']),t['ty'],t['t'],t['unwind']),file=out)
        elif k=='assert': print('    assert(%s == %s, %s %s) -> bb%d   @%s'%(op(t['cond']),t['expected'],t['msg'],[op(x) for x in t['mops']],t['t'],loc),file=out)
        elif k=='yield': print('    yield(%s) -> resume bb%d arg %s drop %s  @%s'%(op(t['value']),t['resume'],pl(t['resume_arg']),t['drop'],loc),file=out)
        else: print('    %s   @%s'%(k,loc),file=out)
if __name__=='__main__':
    pat=sys.argv[1]; which=sys.argv[2] if len(sys.argv)>2 else None
    sys.path.insert(0,'/verif/engine')
    import facts as _facts
    _fa,_=_facts.load('A')
    for d in _fa.values():
        for f in d['fns']:
            if pat in f['path']:
                print('=== ',f['path'], f['kind'], f.get('sig',''))
                for key in ('body','pre','post'):
                    if key in f and (which is None or which==key):
                        print(' --',key); dump_body(f[key])
                if 'layout' in f and which in (None,'layout'):
                    for fl in f['layout']['fields']: print('  field',fl['i'],fl.get('name'),fl['ty'][:200])
                    for v in f['layout']['variants']: print('  variant',v['v'],v['fields'],v['at'])
