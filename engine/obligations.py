"""R4 — panic / wrap obligations: every Assert terminator (overflow, bounds, div-by-zero) and
every panicking call on the paths of a function is an obligation that must be discharged by
(a) constant evaluation, (b) interval bounds implied by the dominating guards of the path,
(c) a relational guard on the path (`a >= b` for `a - b`), or (d) a reviewed lemma keyed by
(function, kind, operands) whose supporting facts are re-checked by the caller."""
import re
from rulelib import walk, canon, atom_str, TooManyPaths
from pathwalk import const_val
import intervals

PANIC_CALLS = re.compile(r"(^|::)(panic|panic_fmt|panic_display|panic_str|panic_explicit|unreachable_display|assert_failed|expect_failed|unwrap_failed|panic_const::.*|panic_nounwind|begin_panic)$")
EXPECTS = re.compile(r"^(std|core)::(option::Option|result::Result)::(expect|unwrap|expect_err|unwrap_err)$")
SLICE_INDEX = re.compile(r"<impl (std::ops::)?Index(Mut)?<I> for (\[T\]|\[T; N\]|std::vec::Vec<T, A>|str|std::string::String)>::index(_mut)?$|^(std|core)::slice::<impl \[T\]>::(copy_from_slice|clone_from_slice|split_at|split_at_mut|swap|rotate_left|rotate_right|chunks|chunks_exact|windows|copy_within)$|^(std|alloc)::vec::Vec<T, A>::(remove|swap_remove|insert|drain|split_off)$|^(std|core)::str::<impl str>::(split_at|split_at_mut)$|^(std|alloc)::string::String::(remove|insert|insert_str|split_off|drain|replace_range)$")
LOSSY = re.compile(r"::num::<impl (u8|u16|u32|u64|usize|u128)>::(checked_shl|wrapping_shl|overflowing_shl|unbounded_shl|wrapping_add|wrapping_sub|wrapping_mul|overflowing_add|overflowing_sub|overflowing_mul|unchecked_add|unchecked_sub|unchecked_mul|unchecked_shl)$")
WIDTH = {"u8": 8, "u16": 16, "u32": 32, "u64": 64, "usize": 64, "i32": 32, "i64": 64, "isize": 64, "u128": 128}


class Obl:
    def __init__(self, fn, kind, ops, atoms, loc, macs, extra=None):
        self.fn = fn
        self.kind = kind
        self.ops = ops
        self.atoms = atoms
        self.loc = loc
        self.macs = macs
        self.extra = extra
        self.how = None

    @property
    def key(self):
        return "%s|%s|%s" % (self.fn.path.replace("wtransport_proto::", "p::").replace("wtransport::", "w::"), self.kind, ",".join(canon(o) for o in self.ops)[:160])

    def text(self):
        return "%s(%s)" % (self.kind, ", ".join(canon(o) for o in self.ops))


def collect(fn, max_paths=20000):
    """all obligations on all paths of fn, de-duplicated by (kind, operands, location);
    for each the weakest guard set over the paths reaching it is kept (intersection of atoms)."""
    paths = walk(fn, max_paths=max_paths)
    seen = {}
    for p in paths:
        for e in p.events:
            if e[0] == "assert":
                msg = e[1]
                if msg.startswith("Resumed") or msg in ("Misaligned", "NullDeref", "InvalidEnum"):
                    continue
                cv = const_val(e[3])
                if isinstance(cv, int) and bool(cv) == bool(e[4]):
                    continue  # condition is a constant that equals the expected value: cannot fire
                k = (msg, tuple(canon(o) for o in e[2]), e[6])
                atoms = p.atoms[:e[7]]
                macs = e[8] if len(e) > 8 else ()
                _merge(seen, k, fn, msg, e[2], atoms, e[6], macs)
            elif e[0] == "call":
                name = e[1]
                if EXPECTS.match(name):
                    k = ("call:" + name.split("::")[-1], tuple(canon(o) for o in e[2]), e[4])
                    _merge(seen, k, fn, "call:" + name.split("::")[-1], e[2], p.atoms[:e[6]], e[4], ())
                elif LOSSY.search(name):
                    m = LOSSY.search(name)
                    k = ("lossy:" + m.group(2), tuple(canon(o) for o in e[2]), e[4])
                    _merge(seen, k, fn, "lossy:%s:%s" % (m.group(2), m.group(1)), e[2], p.atoms[:e[6]], e[4], ())
                elif SLICE_INDEX.search(name):
                    short = name.split("::")[-1]
                    k = ("call:" + short, tuple(canon(o) for o in e[2]), e[4])
                    _merge(seen, k, fn, "call:" + short, e[2], p.atoms[:e[6]], e[4], ())
        if p.leaf[0] == "panic":
            name, args, loc, macs = p.leaf[1], p.leaf[2], p.leaf[3], p.leaf[4]
            k = ("panic", (canon(args[0]) if args else "",), loc)
            _merge(seen, k, fn, "panic", args[:1], p.atoms, loc, macs)
    return list(seen.values())


def _merge(seen, k, fn, kind, ops, atoms, loc, macs):
    if k in seen:
        o = seen[k]
        keep = [a for a in o.atoms if a in atoms]
        o.atoms = keep
    else:
        seen[k] = Obl(fn, kind, ops, list(atoms), loc, macs)


def _rel(atoms, a, b, ops_ok):
    """is there an atom `a OP b` with OP in ops_ok (after normalising both orders)?"""
    a, b = intervals.core(a), intervals.core(b)
    flip = {"Ge": "Le", "Le": "Ge", "Gt": "Lt", "Lt": "Gt", "Eq": "Eq", "Ne": "Ne"}
    for at in atoms:
        if at[0] == "cmp":
            l, r = intervals.core(at[2]), intervals.core(at[3])
            if l == a and r == b and at[1] in ops_ok:
                return True
            if l == b and r == a and flip[at[1]] in ops_ok:
                return True
    return False


def bounds_of(atoms, e, typeb=None):
    """interval of expression e from constants, atoms and the optional type-fact callback"""
    v = intervals.cval(e)
    if v is not None:
        return v, v
    lo, hi = intervals.bounds(atoms, e)
    c = intervals.core(e)
    if typeb:
        tl, th = typeb(c)
        if tl is not None:
            lo = tl if lo is None else max(lo, tl)
        if th is not None:
            hi = th if hi is None else min(hi, th)
    if lo is None:
        lo = 0
    # structural: a & mask, a >> k, a % m
    if isinstance(c, tuple) and c[0] == "bin":
        op, a, b = c[1], c[2], c[3]
        bl, bh = (intervals.cval(b), intervals.cval(b))
        if op == "BitAnd" and bh is not None:
            hi = bh if hi is None else min(hi, bh)
        if op == "BitAnd" and intervals.cval(a) is not None:
            hi = intervals.cval(a) if hi is None else min(hi, intervals.cval(a))
        if op == "Rem" and bh:
            hi = bh - 1 if hi is None else min(hi, bh - 1)
        if op == "Shr" and bh is not None:
            al, ah = bounds_of(atoms, a, typeb)
            if ah is not None:
                hi = ah >> bh if hi is None else min(hi, ah >> bh)
    return lo, hi


def discharge(o, typeb=None, width_of=None):
    """try the generic discharges; returns a string (how) or None"""
    k = o.kind
    if k.startswith("Overflow("):
        op = k[9:-1]
        a, b = o.ops
        w = 64
        if width_of:
            w = width_of(a) or width_of(b) or 64
        al, ah = bounds_of(o.atoms, a, typeb)
        bl, bh = bounds_of(o.atoms, b, typeb)
        if op == "Sub":
            if _rel(o.atoms, a, b, ("Ge", "Gt", "Eq")):
                return "guard a>=b on every path"
            if al is not None and bh is not None and al >= bh:
                return "interval: lo(a)=%s >= hi(b)=%s" % (al, bh)
        if op == "Add":
            if ah is not None and bh is not None and ah + bh < (1 << w):
                return "interval: hi(a)+hi(b)=%s < 2^%d" % (ah + bh, w)
        if op == "Mul":
            if ah is not None and bh is not None and ah * bh < (1 << w):
                return "interval: hi(a)*hi(b) < 2^%d" % w
        if op in ("Shl", "Shr"):
            if bh is not None and bh < w:
                return "interval: shift amount <= %s < %d" % (bh, w)
        return None
    if k.startswith("lossy:"):
        _, op, ty = k.split(":")
        w = WIDTH.get(ty, 64)
        a, b = o.ops[0], o.ops[1]
        al, ah = bounds_of(o.atoms, a, typeb)
        bl, bh = bounds_of(o.atoms, b, typeb)
        if op.endswith("shl"):
            if ah is not None and bh is not None and bh < w and (ah << bh) < (1 << w):
                return "interval: value << amount stays below 2^%d (no bit lost)" % w
            # guard of the form a <= MAX >> amount
            for at in o.atoms:
                if at[0] == "cmp" and at[1] in ("Le", "Lt") and intervals.core(at[2]) == intervals.core(a):
                    r = intervals.core(at[3])
                    if isinstance(r, tuple) and r[0] == "bin" and r[1] == "Shr" and intervals.core(r[3]) == intervals.core(b) and intervals.cval(r[2]) == (1 << w) - 1:
                        return "guard value <= MAX >> amount"
            return None
        if op.endswith("add"):
            if ah is not None and bh is not None and ah + bh < (1 << w):
                return "interval: no wrap"
            return None
        if op.endswith("sub"):
            if _rel(o.atoms, a, b, ("Ge", "Gt", "Eq")) or (al is not None and bh is not None and al >= bh):
                return "guard a>=b"
            return None
        if op.endswith("mul"):
            if ah is not None and bh is not None and ah * bh < (1 << w):
                return "interval: no wrap"
            return None
        return None
    if k == "BoundsCheck":
        ln, ix = o.ops
        if _rel(o.atoms, ix, ln, ("Lt",)):
            return "guard index<len"
        il, ih = bounds_of(o.atoms, ix, typeb)
        ll, lh = bounds_of(o.atoms, ln, typeb)
        if ih is not None and ll is not None and ih < ll:
            return "interval: hi(index)=%s < lo(len)=%s" % (ih, ll)
        return None
    if k in ("DivisionByZero", "RemainderByZero"):
        v = intervals.cval(o.ops[0])
        if v:
            return "constant divisor %s" % v
        return None
    return None


# ------------------------------------------------------------------ richer dischargers

def _is_len_of(e, s):
    """is e the expression `len(s)` (slice/Vec/Bytes length)"""
    from pathwalk import strip_refs
    e = intervals.core(e)
    if isinstance(e, tuple) and e[0] == "call" and re.search(r"(\[T\]>|Vec<T, A>|Bytes)::len$", e[1]) and e[2]:
        return strip_refs(e[2][0]) == strip_refs(s)
    if isinstance(e, tuple) and e[0] == "un" and e[1] == "PtrMetadata":
        return strip_refs(e[2]) == strip_refs(s)
    return False


def len_lower_bound(atoms, s):
    """largest c such that len(s) >= c is implied by the path (0 if none)"""
    from pathwalk import strip_refs
    lo = 0
    for a in atoms:
        if a[0] == "cmp":
            op, l, r = a[1], a[2], a[3]
            if _is_len_of(l, s) and intervals.cval(r) is not None:
                c = intervals.cval(r)
                if op == "Ge":
                    lo = max(lo, c)
                elif op == "Gt":
                    lo = max(lo, c + 1)
                elif op == "Eq":
                    lo = max(lo, c)
            elif _is_len_of(r, s) and intervals.cval(l) is not None:
                c = intervals.cval(l)
                if op == "Le":
                    lo = max(lo, c)
                elif op == "Lt":
                    lo = max(lo, c + 1)
    return lo


def fits_by_get(atoms, s, n):
    """path contains `s.get(..n)` is Some  (=> n <= len(s))"""
    from pathwalk import strip_refs
    for a in atoms:
        subj = None
        if a[0] == "is" and a[2] == "Some":
            subj = a[1]
        elif a[0] == "try" and a[2] is True:
            subj = a[1]
        if isinstance(subj, tuple) and subj[0] == "call" and re.search(r"\[T\]>::get$", subj[1]) and len(subj[2]) == 2:
            sl, rng = subj[2]
            if strip_refs(sl) == strip_refs(s) and isinstance(rng, tuple) and rng[0] == "agg" and rng[2].endswith("RangeTo") and rng[5] and intervals.core(rng[5][0]) == intervals.core(n):
                return True
    return False


def known_some(atoms, e):
    from pathwalk import strip_refs
    e = strip_refs(e)
    for a in atoms:
        if a[0] == "is" and a[2] in ("Some", "Ok") and strip_refs(a[1]) == e:
            return True
        if a[0] == "try" and a[2] is True and strip_refs(a[1]) == e:
            return True
    return False


def discharge_index(o, array_len=None, typeb=None):
    """`s[a..b]`, `s[..b]`, `s[a..]` : a <= b <= len(s);  `s.split_at(n)` : n <= len(s)"""
    if o.kind in ("call:split_at", "call:split_at_mut") and len(o.ops) == 2:
        # same obligation as `s[..n]`
        rng = ("agg", "adt", "std::ops::RangeTo", "RangeTo", 0, (o.ops[1],))
        o2 = Obl(o.fn, "call:index", (o.ops[0], rng), o.atoms, o.loc, o.macs)
        return discharge_index(o2, array_len, typeb)
    if not o.kind.startswith("call:index"):
        return None
    s, rng = o.ops[0], o.ops[1]
    if not (isinstance(rng, tuple) and rng[0] == "agg" and rng[1] == "adt"):
        return None
    kind = rng[2].split("::")[-1]
    ops = rng[5]
    start = ops[0] if kind in ("Range", "RangeFrom") else None
    end = ops[1] if kind == "Range" else (ops[0] if kind == "RangeTo" else None)

    def le_len(x):
        v = intervals.cval(x)
        if array_len is not None:
            if v is not None and v <= array_len:
                return "constant %d <= array length %d" % (v, array_len)
            lo, hi = bounds_of(o.atoms, x, typeb)
            if hi is not None and hi <= array_len:
                return "interval hi=%d <= array length %d" % (hi, array_len)
        if v is not None and len_lower_bound(o.atoms, s) >= v:
            return "guard len >= %d" % v
        if fits_by_get(o.atoms, s, x):
            return "guard `get(..n)` is Some"
        if _rel(o.atoms, x, ("call", "std::slice::<impl [T]>::len", (s,), 0), ("Le", "Lt")):
            return "guard n <= len"
        for a in o.atoms:
            if a[0] == "cmp" and _is_len_of(a[3], s) and intervals.core(a[2]) == intervals.core(x) and a[1] in ("Le", "Lt"):
                return "guard n <= len"
            if a[0] == "cmp" and _is_len_of(a[2], s) and intervals.core(a[3]) == intervals.core(x) and a[1] in ("Ge", "Gt"):
                return "guard len >= n"
        return None
    why = []
    if end is not None:
        w = le_len(end)
        if not w:
            return None
        why.append("end: " + w)
    if start is not None:
        if end is not None:
            vs, ve = intervals.cval(start), intervals.cval(end)
            if vs is not None and ve is not None and vs <= ve:
                why.append("start<=end constants")
            elif _rel(o.atoms, start, end, ("Lt", "Le")):
                why.append("guard start<=end")
            elif vs == 0:
                why.append("start 0")
            else:
                sl, sh = bounds_of(o.atoms, start, typeb)
                el, eh = bounds_of(o.atoms, end, typeb)
                if sh is not None and el is not None and sh <= el:
                    why.append("interval start<=end")
                else:
                    return None
        else:
            w = le_len(start)
            if not w:
                return None
            why.append("start: " + w)
    return "; ".join(why) if why else None
