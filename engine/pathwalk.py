"""E3/E4 core — path-sensitive table extraction over MIR.

Enumerates the acyclic paths of a function's CFG (back edges are cut and recorded as
`loop` leaves; unwind edges are ignored), keeping a symbolic environment local -> expression
tree. Nothing is evaluated by a solver: conditions stay syntactic *atoms* and results stay
constructor trees, so that the output is the function's decision table / call sequence as
written, keyed by names and constants (never by line or arm order).

Normalisations (closed list, see DESIGN §3): await collapse, `?` collapse, transparent
combinators (ok_or, map_err, Pin::new_unchecked, into_future, deref/borrow shims, From::from
identity is kept as `from`), logging-macro regions skipped via the immediate post-dominator.
"""
import re
from mirlib import CFG, mac_of, loc_of, callee_name

LOG_MACROS = {
    "debug", "trace", "info", "warn", "error", "event", "tracing::event", "tracing::debug",
    "tracing::trace", "$crate::event", "enabled", "$crate::enabled", "level_enabled",
    "$crate::level_enabled", "debug_span", "trace_span", "span", "$crate::span",
    "tracing::debug_span", "tracing::span", "$crate::callsite2", "callsite2", "$crate::valueset",
    "$crate::fieldset",
}


class TooManyPaths(Exception):
    pass


# ---------------------------------------------------------------- helper inlining (vocabulary)

_VOCAB = None
MAX_INLINE_DEPTH = 5


def vocab():
    """def paths of the reference tree (spec/vocabulary.json). Rule tables are stated over these names; a crate-local
    callee that is *not* in the vocabulary is a helper introduced by a later edit (extract-function refactoring, new
    private fn, new `async fn`): the walker looks through it, so a table does not change because code moved into a helper."""
    global _VOCAB
    if _VOCAB is None:
        import json
        import os
        p = os.path.join(os.path.dirname(os.path.dirname(os.path.abspath(__file__))), "spec", "vocabulary.json")
        global _VOCAB_CONSTS
        try:
            d = json.load(open(p))
            _VOCAB = set(d["fns"])
            _VOCAB_CONSTS = set(d.get("consts", []))
        except Exception:
            _VOCAB = set()
            _VOCAB_CONSTS = set()
    return _VOCAB


_VOCAB_CONSTS = None


def vocab_consts():
    vocab()
    return _VOCAB_CONSTS


# ---------------------------------------------------------------- expression helpers

TRANSPARENT_UNARY = (
    # callee path regex -> behaves as identity on its first argument
    r"^std::pin::Pin::new_unchecked$",
    r"^std::pin::Pin::new$",
    r"^std::pin::Pin::get_mut$",
    r"^std::pin::Pin::as_mut$",
    r"^<.* as std::future::IntoFuture>::into_future$",
    r"^std::future::IntoFuture::into_future$",
    r"^std::future::get_context$",
    r"^<.* as std::ops::Deref>::deref$",
    r"^<.* as std::ops::DerefMut>::deref_mut$",
    r"^std::ops::Deref::deref$",
    r"^std::ops::DerefMut::deref_mut$",
    r"^<.* as std::convert::AsRef<.*>>::as_ref$",
    r"^<.* as std::borrow::Borrow<.*>>::borrow$",
    r"^<.* as std::convert::Into<.*>>::into$",
    r"^std::convert::identity$",
    r"^tracing::Instrument::instrument$",
)
_TRANSPARENT = [re.compile(p) for p in TRANSPARENT_UNARY]
# combinators that `?` looks through (simp_ok / err_of): their call is not an event of its own, so that
# `x.ok_or(E)?` / `x.map_err(f)?` and the explicit `match` leave the same trace
IS_VARIANT = re.compile(r"^std::(option::Option::(is_some|is_none)|result::Result::(is_ok|is_err))$")
COMBINATOR = re.compile(r"^std::(option::Option|result::Result)::(map|and_then|or_else|map_err|transpose|unwrap_or_default|unwrap_or|expect|unwrap)$")
PURE_COMBINATOR = re.compile(r"^std::(option::Option::(ok_or|ok_or_else)|result::Result::(map_err|ok))$")


def is_transparent(path):
    return any(r.match(path) for r in _TRANSPARENT)


def strip_refs(e):
    while isinstance(e, tuple) and e and e[0] in ("ref", "deref"):
        e = e[1]
    return e


def const_expr(c):
    """JSON const -> expression"""
    if "fn" in c:
        return ("fnref", c.get("fn_resolved") or c["fn"])
    if "uneval" in c:
        v = c.get("val")
        inner = const_expr(v) if v else ("c", c.get("ty", "?"), None)
        if c.get("promoted"):
            return inner  # promoted temporaries have no name of their own: show the value
        return ("cn", c["uneval"], inner)
    ty = c.get("ty", "?")
    if "static" in c:
        return ("cn", c["static"], ("c", ty, "static"))
    if "int" in c:
        return ("c", ty, int(c["int"]))
    if "tyconst" in c:
        return ("cparam", c["tyconst"])
    if "str" in c:
        return ("c", ty, c["str"])
    if "bytes" in c:
        return ("c", ty, bytes(c["bytes"]))
    if "mem" in c:
        return ("c", ty, _freeze(c["mem"]))
    if c.get("zst"):
        return ("c", ty, ())
    return ("c", ty, c.get("disp"))


def _freeze(x):
    if isinstance(x, list):
        return tuple(_freeze(i) for i in x)
    if isinstance(x, dict):
        if "bytes" in x and len(x) == 1:
            return bytes(x["bytes"])
        return tuple(sorted((k, _freeze(v)) for k, v in x.items()))
    return x


def const_val(e):
    """integer/str value of a constant expression, or None"""
    if not isinstance(e, tuple):
        return None
    if e[0] == "c":
        return e[2]
    if e[0] == "cn":
        return const_val(e[2])
    return None


# ---------------------------------------------------------------- walker


class Path:
    __slots__ = ("atoms", "events", "leaf", "blocks", "ret")

    def __init__(self, atoms, events, leaf, blocks):
        self.atoms = atoms      # list of atoms (condition facts along the path)
        self.events = events    # list of events (calls, asserts, stores, drops, awaits)
        self.leaf = leaf        # ('return', expr) | ('panic', info) | ('loop', bb) | ('unreachable',) | ('diverge', info)
        self.blocks = blocks    # list of visited block indices

    def calls(self, regex=None):
        out = []
        for ev in self.events:
            if ev[0] == "call" and (regex is None or re.search(regex, ev[1])):
                out.append(ev)
        return out


WALKED = set()


class Walker:
    def __init__(self, fn, max_paths=20000, skip_logging=True, follow_panics=True, inline=None,
                 prog=None, cont=None, stack=(), env1=None):
        WALKED.add(getattr(fn, "path", None))   # audit: which function bodies the rules looked at (engine/audit.py)
        self.inline_stop = inline   # None: inline only helpers outside the vocabulary; regex: inline every local fn except matches
        self.env1 = env1            # initial environment override (closure application: {1: closure aggregate, 2: argument, ...})
        self.cont = cont        # (caller walker, call terminator, mode) when this walker runs an inlined helper
        self.stack = stack + (fn.path,)
        self.fn = fn
        self.body = fn.body
        if self.body is None:
            raise ValueError("no body for " + fn.path)
        self.cfg = fn.cfg
        self.blocks = self.body["blocks"]
        self.locals = self.body["locals"]
        self.argc = self.body["argc"]
        self.max_paths = max_paths
        self.skip_logging = skip_logging
        self.follow_panics = follow_panics
        self.paths = []
        self.upnames = {}
        for u in self.body.get("upnames", []):
            pl = u["pl"]
            # _1.N or (*_1).N
            fs = [p["f"] for p in pl["p"] if isinstance(p, dict) and "f" in p]
            if pl["l"] == 1 and len(fs) == 1:
                self.upnames[fs[0]] = u["name"]

    # ---- places and operands
    def init_env(self):
        env = {}
        for i in range(1, self.argc + 1):
            name = self.locals[i].get("name") or ("arg%d" % i)
            env[i] = ("p", i, name)
        return env

    def read_local(self, st, l):
        e = st["env"].get(l)
        if e is None:
            return ("l", l)
        return e

    def place_expr(self, st, pl):
        e = self.read_local(st, pl["l"])
        first = True
        for pr in pl["p"]:
            if pr == "*":
                if isinstance(e, tuple) and e[0] == "ref":
                    e = e[1]
                else:
                    e = ("deref", e)
            elif isinstance(pr, dict) and "f" in pr:
                e = self.field(e, pr["f"], first and pl["l"] == 1, pr.get("n"))
            elif isinstance(pr, dict) and "dc" in pr:
                e = ("dc", e, pr["dc"], pr["v"])
            elif isinstance(pr, dict) and "idx" in pr:
                e = ("idx", e, self.read_local(st, pr["idx"]))
            elif isinstance(pr, dict) and "cidx" in pr:
                e = ("idx", e, ("c", "usize", pr["cidx"]))
            else:
                e = ("proj", e, str(pr))
            first = False
            # heap lookup: a store through a pointer earlier on this path
            hv = st["heap"].get(e)
            if hv is not None:
                e = hv
        return e

    def field(self, e, i, is_self_upvar=False, name=None):
        if isinstance(e, tuple):
            if e[0] == "agg":
                ops = e[5]
                if i < len(ops):
                    return ops[i]
            if e[0] == "dc":
                base, vname = e[1], e[2]
                if base[0] == "agg" and base[1] == "adt" and base[3] == vname:
                    ops = base[5]
                    if i < len(ops):
                        return ops[i]
                if base[0] == "branch":
                    if vname == "Continue":
                        return simp_ok(base[1])
                    if vname == "Break":
                        return ("resid", base[1])
                if base[0] == "poll" and vname == "Ready":
                    return ("await", base[1], base[2])
            if e[0] in ("c", "cn") and i == 0 and isinstance(const_val(e), int):
                # field 0 of a scalar newtype constant (e.g. `StatusCode::MIN.0`, `VarInt::MAX.0`)
                if e[0] == "cn":
                    return ("cn", e[1] + ".0", e[2])
                return e
            if e[0] == "p" and e[1] == 1 and i in self.upnames:
                return ("up", i, self.upnames[i])
            if e[0] == "deref" and isinstance(e[1], tuple) and e[1][0] == "p" and e[1][1] == 1 and i in self.upnames:
                return ("up", i, self.upnames[i])
        if name and not name.isdigit():
            return ("f", e, name)
        return ("f", e, i)

    def operand(self, st, op):
        k = op["k"]
        if k in ("copy", "move"):
            return self.place_expr(st, op["pl"])
        if k == "const":
            return const_expr(op["c"])
        return ("unk", str(op))

    def rvalue(self, st, rv, bi):
        k = rv["k"]
        if k == "use":
            return self.operand(st, rv["op"])
        if k == "ref" or k == "rawptr":
            return ("ref", self.place_expr(st, rv["pl"]))
        if k == "cast":
            return ("cast", rv["ck"], self.operand(st, rv["op"]), rv["ty"])
        if k == "bin":
            a = self.operand(st, rv["a"])
            b = self.operand(st, rv["b"])
            va, vb = const_val(a), const_val(b)
            if isinstance(va, int) and isinstance(vb, int) and not isinstance(va, bool) and not isinstance(vb, bool):
                op = rv["op"]
                base = op.replace("WithOverflow", "").replace("Unchecked", "")
                r = None
                if base == "Add":
                    r = va + vb
                elif base == "Sub" and va >= vb:
                    r = va - vb
                elif base == "Mul":
                    r = va * vb
                elif base == "BitAnd":
                    r = va & vb
                elif base == "BitOr":
                    r = va | vb
                elif base == "Shl" and vb < 128:
                    r = va << vb
                elif base == "Shr" and vb < 128:
                    r = va >> vb
                cmpr = {"Eq": va == vb, "Ne": va != vb, "Lt": va < vb, "Le": va <= vb, "Gt": va > vb, "Ge": va >= vb}.get(op)
                if cmpr is not None:
                    return ("c", "bool", int(cmpr))
                if r is not None and r < (1 << 64):
                    if op.endswith("WithOverflow"):
                        return ("agg", "tuple", "", "", 0, (("c", "int", r), ("c", "bool", 0)))
                    return ("c", "int", r)
            return ("bin", rv["op"], a, b)
        if k == "un":
            return ("un", rv["op"], self.operand(st, rv["a"]))
        if k == "discr":
            vn = tuple((int(a), b) for a, b in rv.get("vnames", []))
            return ("discr", self.place_expr(st, rv["pl"]), vn)
        if k == "agg":
            ops = tuple(self.operand(st, o) for o in rv["ops"])
            ak = rv["ak"]
            if ak == "adt":
                if not rv["adt"].startswith("std::"):
                    st["events"].append(("agg", rv["adt"], rv["variant"], ops, bi, len(st["atoms"])))
                return ("agg", "adt", rv["adt"], rv["variant"], rv["vi"], ops)
            if ak in ("closure", "coroutine", "corclosure"):
                return ("agg", ak, rv["did"], "", 0, ops)
            return ("agg", ak, "", "", 0, ops)
        if k == "repeat":
            return ("rep", self.operand(st, rv["op"]), rv.get("ni", rv["n"]))
        return ("unk", rv.get("s", k))

    def assign(self, st, pl, val):
        if not pl["p"]:
            st["env"][pl["l"]] = val
            return
        # projected store
        # (a) field of a local aggregate being built piecewise
        base = st["env"].get(pl["l"])
        if len(pl["p"]) == 1 and isinstance(pl["p"][0], dict) and "f" in pl["p"][0] \
                and isinstance(base, tuple) and base[0] == "agg":
            i = pl["p"][0]["f"]
            ops = list(base[5])
            while len(ops) <= i:
                ops.append(("l", -1))
            ops[i] = val
            st["env"][pl["l"]] = base[:5] + (tuple(ops),)
            return
        # (b) store through pointer / into field: remember on the path heap, record event
        # compute the place expression *without* heap substitution of the final element
        saved = st["heap"]
        st["heap"] = {}
        key = self.place_expr(st, pl)
        st["heap"] = saved
        st["heap"] = dict(st["heap"])
        st["heap"][key] = val
        st["events"].append(("store", key, val))

    # ---- walking
    def is_log_switch(self, t):
        if not self.skip_logging:
            return False
        macs = mac_of(t["at"])
        return any(m in LOG_MACROS or "tracing::" in m or m == "instrument" for m in macs)

    def run(self):
        env = self.init_env()
        if self.env1:
            env.update(self.env1)
        st = {"env": env, "heap": {}, "events": [], "atoms": [], "blocks": [], "ret": None}
        self._walk(0, st)
        return self.paths

    def _finish(self, st, leaf):
        self.paths.append(Path(st["atoms"], st["events"], leaf, st["blocks"]))
        if len(self.paths) > self.max_paths:
            raise TooManyPaths(self.fn.path)

    def _fork(self, st):
        return {"env": dict(st["env"]), "heap": st["heap"], "events": list(st["events"]),
                "atoms": list(st["atoms"]), "blocks": list(st["blocks"]), "ret": st.get("ret")}

    # ---- inlining of helpers that are not part of the reference vocabulary
    def _inline_target(self, f, want_coroutine=False, did=None):
        prog = getattr(self.fn, "prog", None)
        if prog is None or len(self.stack) > MAX_INLINE_DEPTH:
            return None
        cands = [did] if did else [f.get("resolved"), f.get("path")]
        for cand in cands:
            if not cand or cand in self.stack:
                continue
            if self.inline_stop is None:
                if cand in vocab():
                    continue
            elif self.inline_stop.search(cand):
                continue
            l = prog.fns.get(cand)
            if l and len(l) == 1 and l[0].body is not None and bool(l[0].is_coroutine) == want_coroutine:
                return l[0]
        return None

    def _inline(self, st, g, env, t, mode):
        sub = Walker(g, max_paths=self.max_paths, skip_logging=self.skip_logging, follow_panics=self.follow_panics,
                     cont=(self, t, mode), stack=self.stack, inline=self.inline_stop)
        sub.paths = self.paths
        st2 = {"env": env, "heap": st["heap"], "events": st["events"], "atoms": st["atoms"], "blocks": [],
               "ret": (st["env"], st["blocks"], st.get("ret"))}
        sub._walk(0, st2)

    def _return_to_caller(self, st):
        caller, t, mode = self.cont
        val = self.read_local(st, 0)
        if mode == "await":
            val = ("agg", "adt", "std::task::Poll", "Ready", 0, (val,))
        elif isinstance(mode, tuple) and mode[0] == "wrap":
            val = ("agg", "adt", mode[1], mode[2], mode[3], (val,))
        env_c, blocks_c, ret_c = st["ret"]
        st_c = {"env": dict(env_c), "heap": st["heap"], "events": st["events"], "atoms": st["atoms"],
                "blocks": list(blocks_c), "ret": ret_c}
        caller.assign(st_c, t["dest"], val)
        caller._walk(t["t"], st_c)

    def _walk(self, bi, st):
        while True:
            if bi in st["blocks"]:
                self._finish(st, ("loop", bi))
                return
            st["blocks"].append(bi)
            if bi in self.cfg.loops:
                st["events"].append(("loophead", bi, self.fn.path))
                # loop header: the path through the body stands for an arbitrary iteration, so
                # everything the loop assigns is unknown here (sound one-iteration abstraction)
                locs, store = self.cfg.loop_assigned(bi)
                for l in locs:
                    if l in st["env"] and l > self.argc:
                        st["env"][l] = ("lv", l, bi, self.locals[l].get("name") or "")
                    elif l in st["env"]:
                        st["env"][l] = ("lv", l, bi, self.locals[l].get("name") or "")
                if store:
                    st["heap"] = {}
            bb = self.blocks[bi]
            for s in bb["s"]:
                if s["k"] == "assign":
                    self.assign(st, s["pl"], self.rvalue(st, s["rv"], bi))
                elif s["k"] == "setdiscr":
                    st["events"].append(("setdiscr", self.place_expr(st, s["pl"]), s["v"]))
            t = bb["t"]
            k = t["k"]
            if k == "goto":
                bi = t["t"]
                continue
            if k == "return":
                if self.cont is not None:
                    self._return_to_caller(st)
                    return
                self._finish(st, ("return", self.read_local(st, 0)))
                return
            if k == "unreachable":
                self._finish(st, ("unreachable",))
                return
            if k in ("resume", "abort", "cordrop"):
                self._finish(st, ("unwind",))
                return
            if k == "drop":
                st["events"].append(("drop", self.place_expr(st, t["pl"]), t["ty"], bi))
                bi = t["t"]
                continue
            if k == "assert":
                st["events"].append(("assert", t["msg"], tuple(self.operand(st, o) for o in t["mops"]),
                                     self.operand(st, t["cond"]), t["expected"], bi, loc_of(t["at"]), len(st["atoms"]),
                                     tuple(mac_of(t["at"]))))
                bi = t["t"]
                continue
            if k == "yield":
                # only reached when the Pending arm of an await was followed (we never do) or
                # for hand-written generators: treat as suspension and continue at resume
                st["events"].append(("yield", bi))
                bi = t["resume"]
                continue
            if k == "call":
                nxt = self._call(st, t, bi)
                if nxt is None:
                    return
                bi = nxt
                continue
            if k == "switch":
                if self.is_log_switch(t):
                    ip = self.cfg.ipdom.get(bi)
                    if ip is not None and ip != bi and ip < self.cfg.n:
                        bi = ip
                        continue
                self._switch(st, t, bi)
                return
            if k == "tailcall":
                self._finish(st, ("return", ("call", callee_name(t["f"]), tuple(self.operand(st, a) for a in t["args"]), bi)))
                return
            self._finish(st, ("diverge", k))
            return

    @staticmethod
    def _vec_macro(st, box):
        """the array literal stored through the pointer of `box` (= `Box::new_uninit()` of this path), if that is all that happened to it"""
        b = strip_refs(box)
        if not (isinstance(b, tuple) and b[0] == "call" and b[1].endswith("boxed::Box::new_uninit") or (isinstance(b, tuple) and b[0] == "call" and "Box::<T>::new_uninit" in b[1])):
            return None

        def mentions(e):
            if e == b:
                return True
            return isinstance(e, tuple) and any(mentions(x) for x in e)
        hits = [ev for ev in st["events"] if ev[0] == "store" and mentions(ev[1])]
        if len(hits) != 1:
            return None
        v = strip_refs(hits[0][2])
        if isinstance(v, tuple) and v[0] == "agg" and v[1] == "array":
            return v
        return None

    def _call(self, st, t, bi):
        f = t["f"]
        name = callee_name(f)
        decl = f.get("path", name)
        args = tuple(self.operand(st, a) for a in t["args"])
        at = t["at"]
        macs = mac_of(at)
        val = None
        # --- await collapse
        if decl == "std::future::Future::poll" and any(m == "desugar:Await" for m in macs):
            fut = strip_refs(args[0]) if args else ("unk", "poll")
            if isinstance(fut, tuple) and fut[0] == "call" and fut[1] == "std::future::pending":
                # `pending().await` never completes: the logical path ends here
                st["events"].append(("await", fut, bi, loc_of(at), None))
                self._finish(st, ("pending",))
                return None
            if isinstance(fut, tuple) and fut[0] == "agg" and fut[1] == "coroutine" and t["t"] is not None:
                g = self._inline_target(f, want_coroutine=True, did=fut[2])
                if g is not None:
                    # awaiting a local `async` helper that is not in the vocabulary: look through it
                    self._inline(st, g, {1: fut}, t, "await")
                    return None
            val = ("poll", fut, bi)
            st["events"].append(("await", fut, bi, loc_of(at), f.get("targs", [None])[0]))
        elif decl == "std::ops::Try::branch":
            val = ("branch", args[0])
        elif decl == "std::ops::FromResidual::from_residual":
            a = args[0]
            if isinstance(a, tuple) and a[0] == "resid":
                val = residual_value(a[1], (f.get("targs") or [""])[0])
            else:
                val = ("call", name, args, bi)
        elif is_transparent(name) or is_transparent(decl):
            val = args[0] if args else ("unk", name)
            if decl.endswith("into_future"):
                pass
        elif IS_VARIANT.search(name) and len(args) == 1 and isinstance(strip_refs(args[0]), tuple) and strip_refs(args[0])[:2] == ("agg", "adt") \
                and strip_refs(args[0])[3] in ("Some", "None", "Ok", "Err"):
            # `Some(v).is_some()` etc. on a constructor built on this path: a constant
            val = ("c", "bool", int((strip_refs(args[0])[3] in ("Some", "Ok")) == name.endswith(("is_some", "is_ok"))))
        elif name.endswith("boxed::box_assume_init_into_vec_unsafe") and len(args) == 1 and self._vec_macro(st, args[0]) is not None:
            # `vec![a, b]`: the array written into the fresh box is the vector's content — the same value as `[a, b].to_vec()`
            val = ("call", "std::slice::<impl [T]>::to_vec", (self._vec_macro(st, args[0]),), bi)
        elif t["t"] is not None and COMBINATOR.search(name) and self._combinator(st, t, bi, name, args):
            return None
        else:
            g = self._inline_target(f) if t["t"] is not None else None
            if g is not None and len(args) == g.body["argc"]:
                self._inline(st, g, {i + 1: a for i, a in enumerate(args)}, t, "call")
                return None
            val = ("call", name, args, bi)
            if not PURE_COMBINATOR.search(name):
                st["events"].append(("call", name, args, bi, loc_of(at), f, len(st["atoms"])))
        if t["t"] is None:
            # diverging call (panic etc.)
            self._finish(st, ("panic", name, args, loc_of(at), tuple(macs)))
            return None
        self.assign(st, t["dest"], val)
        return t["t"]

    # ---- std Option / Result combinators as control flow (so that `x.map(f)` and `match x { Some(v) => Some(f(v)), None => None }`
    # leave the same paths).  Only when the function argument is a closure built on this path; otherwise the call stays opaque.
    def _apply(self, st, F, arg, t, wrap):
        """continue at t['t'] with dest := wrap(F(arg)); F is a closure aggregate (inlined) — returns False if F cannot be applied"""
        F = strip_refs(F)
        if not (isinstance(F, tuple) and F[0] == "agg" and F[1] == "closure"):
            return False
        prog = getattr(self.fn, "prog", None)
        if prog is None or len(self.stack) > MAX_INLINE_DEPTH or F[2] in self.stack:
            return False
        l = prog.fns.get(F[2])
        if not l or len(l) != 1 or l[0].body is None:
            return False
        self._inline(st, l[0], {1: F, 2: arg}, t, wrap)
        return True

    def _combinator(self, st, t, bi, name, args):
        short = name.split("::")[-1]
        is_opt = "option::Option" in name
        some, none = (("std::option::Option", "Some", 1), ("std::option::Option", "None", 0)) if is_opt else (("std::result::Result", "Ok", 0), ("std::result::Result", "Err", 1))
        x = args[0]
        if short in ("map", "and_then") and len(args) == 2:
            F = strip_refs(args[1])
            is_fn = isinstance(F, tuple) and F[0] == "fnref"
            if not is_fn:
                if not (isinstance(F, tuple) and F[0] == "agg" and F[1] == "closure"):
                    return False
                prog = getattr(self.fn, "prog", None)
                if prog is None or F[2] not in prog.fns or len(self.stack) > MAX_INLINE_DEPTH or F[2] in self.stack:
                    return False
            kv = None
            if isinstance(x, tuple) and x[0] == "agg" and x[1] == "adt" and x[3] in ("Some", "Ok", "None", "Err"):
                kv = x[3] in ("Some", "Ok")
            # the `empty` arm: value passes through unchanged (None / the same Err)
            if kv is not True:
                s2 = self._fork(st)
                if kv is False or self._assume(s2, simp_atom(("is", x, none[1]))):
                    if is_opt:
                        v = ("agg", "adt", none[0], none[1], none[2], ())
                    else:
                        v = ("agg", "adt", none[0], none[1], none[2], (("err", x),)) if kv is None else x
                    self.assign(s2, t["dest"], v)
                    self._walk(t["t"], s2)
            if kv is not False:
                s2 = self._fork(st)
                if kv is True or self._assume(s2, simp_atom(("is", x, some[1]))):
                    payload = x[5][0] if kv is True and x[5] else ("ok", x)
                    wrap = ("wrap", some[0], some[1], some[2]) if short == "map" else "call"
                    if is_fn:
                        # a function item (e.g. `.map(IdleTimeout::try_from)`): an ordinary call on the payload
                        v = ("call", F[1], (payload,), bi)
                        s2["events"].append(("call", F[1], (payload,), bi, loc_of(t["at"]), {"path": F[1]}, len(s2["atoms"])))
                        if short == "map":
                            v = ("agg", "adt", some[0], some[1], some[2], (v,))
                        self.assign(s2, t["dest"], v)
                        self._walk(t["t"], s2)
                    elif not self._apply(s2, F, payload, t, wrap):
                        return False
            return True
        if short == "or_else" and len(args) == 2:
            F = strip_refs(args[1])
            if not (isinstance(F, tuple) and F[0] == "agg" and F[1] == "closure"):
                return False
            prog = getattr(self.fn, "prog", None)
            if prog is None or F[2] not in prog.fns or len(self.stack) > MAX_INLINE_DEPTH or F[2] in self.stack:
                return False
            s2 = self._fork(st)
            if self._assume(s2, simp_atom(("is", x, some[1]))):
                self.assign(s2, t["dest"], ("agg", "adt", some[0], some[1], some[2], (("ok", x),)))
                self._walk(t["t"], s2)
            s2 = self._fork(st)
            if self._assume(s2, simp_atom(("is", x, none[1]))):
                env_args = () if is_opt else (("err", x),)
                env = {1: F}
                for i, a in enumerate(env_args):
                    env[2 + i] = a
                self._inline(s2, prog.fns[F[2]][0], env, t, "call")
            return True
        if short == "map_err" and not is_opt and len(args) == 2 and isinstance(x, tuple) and x[0] == "agg" and x[1] == "adt" and x[3] in ("Ok", "Err"):
            # only on a value whose variant is known on this path (e.g. the result of a modelled `.map(..)`); `x.map_err(f)?` on an
            # opaque x keeps being looked through by `?`
            if x[3] == "Ok":
                self.assign(st, t["dest"], x)
                self._walk(t["t"], st)
                return True
            payload = x[5][0] if x[5] else ("unit",)
            F = strip_refs(args[1])
            wrap = ("wrap", "std::result::Result", "Err", 1)
            if isinstance(F, tuple) and F[0] == "fnref":
                g = self._inline_target({}, did=F[1])
                if g is not None and g.body["argc"] == 1:
                    self._inline(st, g, {1: payload}, t, wrap)
                    return True
                v = ("call", F[1], (payload,), bi)
                st["events"].append(("call", F[1], (payload,), bi, loc_of(t["at"]), {"path": F[1]}, len(st["atoms"])))
                self.assign(st, t["dest"], ("agg", "adt", "std::result::Result", "Err", 1, (v,)))
                self._walk(t["t"], st)
                return True
            return self._apply(st, F, payload, t, wrap)
        if short == "transpose" and is_opt and len(args) == 1 and isinstance(x, tuple) and x[0] == "agg" and x[1] == "adt":
            if x[3] == "None":
                v = ("agg", "adt", "std::result::Result", "Ok", 0, (x,))
                self.assign(st, t["dest"], v)
                self._walk(t["t"], st)
                return True
            if x[3] == "Some" and x[5]:
                r = x[5][0]
                kv = known_try(r)
                for okk in (True, False):
                    if kv is not None and kv != okk:
                        continue
                    s2 = self._fork(st)
                    if kv is not None or self._assume(s2, simp_atom(("try", r, okk))):
                        if okk:
                            v = ("agg", "adt", "std::result::Result", "Ok", 0, (("agg", "adt", "std::option::Option", "Some", 1, (simp_ok(r),)),))
                        else:
                            v = ("agg", "adt", "std::result::Result", "Err", 1, (err_of(r),))
                        self.assign(s2, t["dest"], v)
                        self._walk(t["t"], s2)
                return True
        if short in ("expect", "unwrap") and isinstance(x, tuple) and x[0] == "agg" and x[1] == "adt":
            if x[3] in ("Some", "Ok") and x[5]:
                self.assign(st, t["dest"], x[5][0])
                self._walk(t["t"], st)
                return True
            if x[3] in ("None", "Err"):
                self._finish(st, ("panic", name, args, loc_of(t["at"]), tuple(mac_of(t["at"]))))
                return True
        if short == "unwrap_or_default" and isinstance(x, tuple) and x[0] == "agg" and x[1] == "adt" and x[3] in ("None", "Err"):
            self.assign(st, t["dest"], ("call", "std::default::Default::default", (), bi))
            self._walk(t["t"], st)
            return True
        if short in ("unwrap_or_default", "unwrap_or") and isinstance(x, tuple) and x[0] == "agg" and x[1] == "adt" and x[3] in ("Some", "Ok") and x[5]:
            self.assign(st, t["dest"], x[5][0])
            self._walk(t["t"], st)
            return True
        if short == "unwrap_or" and len(args) == 2 and isinstance(x, tuple) and x[0] == "agg" and x[1] == "adt" and x[3] in ("None", "Err"):
            self.assign(st, t["dest"], args[1])
            self._walk(t["t"], st)
            return True
        return False

    def _assume(self, st, atom):
        """add a path fact; False when it contradicts a fact already on the path (syntactic)"""
        k = atom[0]
        for a in st["atoms"]:
            if a == atom:
                return True
        if k in ("is", "isnot"):
            x = atom[1]
            for a in st["atoms"]:
                if a[0] == "is" and a[1] == x:
                    if k == "is":
                        if a[2] != atom[2]:
                            return False
                    else:
                        if a[2] in atom[2]:
                            return False
                        return True  # implied
                if a[0] == "isnot" and a[1] == x:
                    if k == "is" and atom[2] in a[2]:
                        return False
        elif k == "try":
            for a in st["atoms"]:
                if a[0] == "try" and a[1] == atom[1] and a[2] != atom[2]:
                    return False
        elif k == "cond":
            for a in st["atoms"]:
                if a[0] == "cond" and a[1] == atom[1] and a[2] != atom[2]:
                    return False
        elif k == "cmp":
            for a in st["atoms"]:
                if a[0] == "cmp" and a[2] == atom[2] and a[3] == atom[3] and NEG.get(a[1]) == atom[1]:
                    return False
        elif k == "eq":
            for a in st["atoms"]:
                if a[0] == "eq" and a[1] == atom[1] and a[2] != atom[2]:
                    return False
                if a[0] == "notin" and a[1] == atom[1] and atom[2] in a[2]:
                    return False
        elif k == "notin":
            for a in st["atoms"]:
                if a[0] == "eq" and a[1] == atom[1]:
                    return a[2] not in atom[2]
        st["atoms"].append(atom)
        return True

    def _switch(self, st, t, bi):
        d = self.operand(st, t["discr"])
        arms = [(int(v), b) for v, b in t["arms"]]
        other = t["otherwise"]
        dty = t.get("dty", "")
        at = loc_of(t["at"])
        # ---- constant folding
        cv = const_val(d)
        if isinstance(cv, bool):
            cv = int(cv)
        if isinstance(cv, int):
            for v, b in arms:
                if v == cv:
                    return self._walk(b, st)
            return self._walk(other, st)
        if isinstance(d, tuple) and d[0] == "discr":
            x = d[1]
            vn = dict(d[2])
            if isinstance(x, tuple) and x[0] == "agg" and x[1] == "adt":
                # known variant: discriminant value = from vnames by name
                val = None
                for dv, nm in vn.items():
                    if nm == x[3]:
                        val = dv
                if val is None:
                    val = x[4]
                for v, b in arms:
                    if v == val:
                        return self._walk(b, st)
                return self._walk(other, st)
            if isinstance(x, tuple) and x[0] == "poll":
                # await: only the Ready arm continues the logical flow
                for v, b in arms:
                    if v == 0:
                        return self._walk(b, st)
                return self._walk(other, st)
            if isinstance(x, tuple) and x[0] == "branch":
                y = x[1]
                kv = known_try(y)
                if kv is not None:
                    # `?` on a value built on this path (e.g. an inlined helper returned Err(..)): only one arm is feasible
                    for v, b in arms:
                        if (v == 0) == kv:
                            return self._walk(b, st)
                    return
                for v, b in arms:
                    s2 = self._fork(st)
                    if self._assume(s2, simp_atom(("try", y, v == 0))):
                        self._walk(b, s2)
                # otherwise is unreachable for ControlFlow
                if self.blocks[other]["t"]["k"] != "unreachable":
                    s2 = self._fork(st)
                    s2["atoms"].append(("try?", y))
                    self._walk(other, s2)
                return
            covered = set()
            for v, b in arms:
                s2 = self._fork(st)
                covered.add(v)
                if self._assume(s2, simp_atom(("is", x, vn.get(v, "#%d" % v)))):
                    self._walk(b, s2)
            rest = [nm for dv, nm in sorted(vn.items()) if dv not in covered]
            if self.blocks[other]["t"]["k"] == "unreachable" and not self.blocks[other]["s"]:
                return
            if vn and not rest:
                return
            s2 = self._fork(st)
            if len(rest) == 1:
                okk = self._assume(s2, simp_atom(("is", x, rest[0])))
            else:
                okk = self._assume(s2, ("isnot", x, tuple(vn.get(v, "#%d" % v) for v, _ in arms)))
            if okk:
                self._walk(other, s2)
            return
        if dty == "bool":
            # arms [[0, F]] otherwise T
            for v, b in arms:
                s2 = self._fork(st)
                if self._assume(s2, simp_atom(("cond", d, bool(v)))):
                    self._walk(b, s2)
            s2 = self._fork(st)
            if self._assume(s2, simp_atom(("cond", d, not bool(arms[0][0]) if arms else True))):
                self._walk(other, s2)
            return
        # integer switch
        for v, b in arms:
            s2 = self._fork(st)
            if self._assume(s2, ("eq", d, v)):
                self._walk(b, s2)
        if self.blocks[other]["t"]["k"] == "unreachable" and not self.blocks[other]["s"]:
            return
        s2 = self._fork(st)
        if self._assume(s2, ("notin", d, tuple(v for v, _ in arms))):
            self._walk(other, s2)


# ---------------------------------------------------------------- simplification


def _call_is(e, suffix):
    return isinstance(e, tuple) and e[0] == "call" and (e[1] == suffix or e[1].endswith("::" + suffix) or e[1].endswith(suffix))


def residual_value(y, selfty):
    """what `y?` returns, as the constructor tree an explicit `return Err(e)` would build for the function's return type
    (`selfty` = Self of the FromResidual instance): later `?` / `match` on the result of an inlined helper can then be folded"""
    er = err_of(y)
    res_err = ("agg", "adt", "std::result::Result", "Err", 1, (er,))
    if selfty.startswith("std::result::Result<"):
        return res_err
    if selfty.startswith("std::option::Option<"):
        return ("agg", "adt", "std::option::Option", "None", 0, ())
    if selfty.startswith("std::task::Poll<std::result::Result<"):
        return ("agg", "adt", "std::task::Poll", "Ready", 0, (res_err,))
    if selfty.startswith("std::task::Poll<std::option::Option<std::result::Result<"):
        return ("agg", "adt", "std::task::Poll", "Ready", 0, (("agg", "adt", "std::option::Option", "Some", 1, (res_err,)),))
    return ("errret", y, selfty)


def known_try(y):
    """True / False when `y?` is known to continue / to return on this path (y is a constructor tree), else None"""
    if isinstance(y, tuple) and y[0] == "call" and y[2] and (_call_is(y, "std::result::Result::map_err") or _call_is(y, "std::option::Option::ok_or")
                                                             or _call_is(y, "std::option::Option::ok_or_else") or _call_is(y, "std::result::Result::ok")):
        return known_try(y[2][0])
    if isinstance(y, tuple) and y[0] == "agg" and y[1] == "adt":
        if y[3] in ("Ok", "Some"):
            return True
        if y[3] in ("Err", "None"):
            return False
        if y[3] == "Ready" and y[2].endswith("task::Poll") and y[5]:
            inner = known_try(y[5][0])
            if inner is False:
                return False
            if inner is True and y[5][0][3] == "Ok":
                return True
        if y[3] == "Pending" and y[2].endswith("task::Poll"):
            return True
    return None


def simp_ok(y):
    """value that continues after `y?`"""
    if isinstance(y, tuple):
        if y[0] == "agg" and y[1] == "adt" and y[3] == "Ready" and y[2].endswith("task::Poll") and y[5] \
                and isinstance(y[5][0], tuple) and y[5][0][0] == "agg" and y[5][0][3] == "Ok":
            inner = y[5][0]
            return y[:5] + ((inner[5][0] if inner[5] else ("unit",)),)
        if y[0] == "agg" and y[1] == "adt" and y[3] in ("Ok", "Some"):
            return y[5][0] if y[5] else ("unit",)
        if _call_is(y, "std::option::Option::ok_or") or _call_is(y, "std::option::Option::ok_or_else"):
            return ("some", y[2][0])
        if _call_is(y, "std::result::Result::map_err"):
            return simp_ok(y[2][0])
    return ("ok", y)


def err_of(y):
    """error payload when `y?` fails (before the implicit From conversion)"""
    if isinstance(y, tuple):
        if y[0] == "agg" and y[1] == "adt" and y[3] == "Err":
            return y[5][0]
        if y[0] == "agg" and y[1] == "adt" and y[3] == "Ready" and y[2].endswith("task::Poll") and y[5]:
            return err_of(y[5][0])
        if _call_is(y, "std::option::Option::ok_or"):
            return y[2][1]
        if _call_is(y, "std::option::Option::ok_or_else"):
            return ("apply", y[2][1])
        if _call_is(y, "std::result::Result::map_err"):
            return ("apply", y[2][1], err_of(y[2][0]))
    return ("err", y)


def simp_atom(a):
    if a[0] == "try":
        y, ok = a[1], a[2]
        if isinstance(y, tuple):
            if _call_is(y, "std::option::Option::ok_or") or _call_is(y, "std::option::Option::ok_or_else"):
                return simp_atom(("is", y[2][0], "Some" if ok else "None"))
            if _call_is(y, "std::result::Result::map_err"):
                return simp_atom(("try", y[2][0], ok))
            if _call_is(y, "std::result::Result::ok"):
                return simp_atom(("try", y[2][0], ok))
        return ("try", y, ok)
    if a[0] == "cond":
        e, truth = a[1], a[2]
        if isinstance(e, tuple):
            if e[0] == "call" and len(e[2]) == 1 and IS_VARIANT.search(e[1]):
                # `x.is_some()` / `x.is_none()` / `x.is_ok()` / `x.is_err()` are the variant tests a `match` / `if let` / `let else` makes
                pos = e[1].endswith(("is_some", "is_ok"))
                opt = "option::Option" in e[1]
                v = ("Some" if opt else "Ok") if pos == truth else ("None" if opt else "Err")
                return ("is", strip_refs(e[2][0]), v)
            if e[0] == "un" and e[1] == "Not":
                return simp_atom(("cond", e[2], not truth))
            if e[0] == "bin" and e[1] in NEG:
                op = e[1] if truth else NEG[e[1]]
                return ("cmp", op, e[2], e[3])
        return ("cond", e, truth)
    return a


NEG = {"Eq": "Ne", "Ne": "Eq", "Lt": "Ge", "Ge": "Lt", "Gt": "Le", "Le": "Gt"}


# ---------------------------------------------------------------- pretty printing


def _short(p):
    p = re.sub(r"\b(?:[a-z_][a-z0-9_#]*::)+", "", p)
    return p


def show(e, depth=0):
    if depth > 12:
        return "…"
    if not isinstance(e, tuple) or not e:
        return repr(e)
    k = e[0]
    d = depth + 1
    if k == "c":
        v = e[2]
        if isinstance(v, int) and not isinstance(v, bool):
            return "%d" % v if v < 1024 else "0x%x" % v
        return repr(v)
    if k == "cn":
        return "%s" % _short(e[1])
    if k == "fnref":
        return "fn " + _short(e[1])
    if k == "p":
        return e[2]
    if k == "up":
        return e[2]
    if k == "l":
        return "_%d" % e[1]
    if k == "lv":
        return "%s@loop" % (e[3] or ("_%d" % e[1]))
    if k == "cparam":
        return e[1]
    if k == "call":
        return "%s(%s)" % (_short(e[1]), ", ".join(show(a, d) for a in e[2]))
    if k == "f":
        return "%s.%s" % (show(e[1], d), e[2])
    if k == "dc":
        return "(%s as %s)" % (show(e[1], d), e[2])
    if k == "agg":
        if e[1] == "adt":
            nm = _short(e[2]) + ("::" + e[3] if e[3] and not e[2].endswith("::" + e[3]) else "")
            if not e[5]:
                return nm
            return "%s(%s)" % (nm, ", ".join(show(a, d) for a in e[5]))
        if e[1] == "tuple":
            return "(%s)" % ", ".join(show(a, d) for a in e[5])
        if e[1] == "array":
            return "[%s]" % ", ".join(show(a, d) for a in e[5])
        return "%s:%s{%s}" % (e[1], _short(e[2]), ", ".join(show(a, d) for a in e[5]))
    if k == "bin":
        return "%s(%s, %s)" % (e[1], show(e[2], d), show(e[3], d))
    if k == "un":
        return "%s(%s)" % (e[1], show(e[2], d))
    if k == "cast":
        return "(%s as %s)" % (show(e[2], d), e[3])
    if k == "ref":
        return "&" + show(e[1], d)
    if k == "deref":
        return "*" + show(e[1], d)
    if k == "discr":
        return "discr(%s)" % show(e[1], d)
    if k == "idx":
        return "%s[%s]" % (show(e[1], d), show(e[2], d))
    if k == "rep":
        return "[%s; %s]" % (show(e[1], d), e[2])
    if k == "await":
        return "await(%s)" % show(e[1], d)
    if k == "poll":
        return "poll(%s)" % show(e[1], d)
    if k == "branch":
        return "branch(%s)" % show(e[1], d)
    if k == "ok":
        return "ok(%s)" % show(e[1], d)
    if k == "some":
        return "some(%s)" % show(e[1], d)
    if k == "resid":
        return "resid(%s)" % show(e[1], d)
    if k == "errret":
        return "Err(from(%s))" % show(err_of(e[1]), d)
    if k == "err":
        return "err(%s)" % show(e[1], d)
    if k == "apply":
        return "apply(%s)" % ", ".join(show(a, d) for a in e[1:])
    return "%s(%s)" % (k, ", ".join(show(a, d) if isinstance(a, tuple) else repr(a) for a in e[1:]))


def show_atom(a):
    k = a[0]
    if k == "is":
        return "%s is %s" % (show(a[1]), a[2])
    if k == "isnot":
        return "%s not in {%s}" % (show(a[1]), ",".join(a[2]))
    if k == "try":
        return "%s %s" % (show(a[1]), "ok" if a[2] else "fails")
    if k == "cond":
        return "%s%s" % ("" if a[2] else "!", show(a[1]))
    if k == "cmp":
        return "%s %s %s" % (show(a[2]), {"Eq": "==", "Ne": "!=", "Lt": "<", "Le": "<=", "Gt": ">", "Ge": ">="}[a[1]], show(a[3]))
    if k == "eq":
        return "%s == %s" % (show(a[1]), a[2])
    if k == "notin":
        return "%s not in %s" % (show(a[1]), list(a[2]))
    return str(a)


def show_leaf(l):
    if l[0] == "return":
        return "return " + show(l[1])
    if l[0] == "panic":
        return "panic %s @%s" % (_short(l[1]), l[3])
    if l[0] == "loop":
        return "continue@bb%d" % l[1]
    return l[0]


def walk(fn, **kw):
    return Walker(fn, **kw).run()


def table(fn, **kw):
    """decision table: list of (atoms, leaf) with events dropped"""
    return [(p.atoms, p.leaf) for p in walk(fn, **kw)]


def dump_paths(fn, **kw):
    out = []
    for p in walk(fn, **kw):
        out.append("  IF %s\n     EV %s\n     => %s" % (
            " & ".join(show_atom(a) for a in p.atoms) or "true",
            "; ".join(show(("call", e[1], e[2])) if e[0] == "call" else ("await " + show(e[1]) if e[0] == "await" else e[0]) for e in p.events if e[0] in ("call", "await", "store", "assert")),
            show_leaf(p.leaf)))
    return "\n".join(out)


if __name__ == "__main__":
    import sys
    import facts
    from mirlib import Prog
    f, meta = facts.load("A")
    prog = Prog(f)
    for fn in prog.find(sys.argv[1]):
        if fn.body is None:
            continue
        print("====", fn.path)
        try:
            print(dump_paths(fn))
        except TooManyPaths:
            print("  too many paths")
