"""Helpers shared by the rule modules: canonical forms of expressions, variant chains,
table extraction on top of pathwalk, constant lookup."""
import re
from pathwalk import vocab_consts, Walker, show, show_atom, show_leaf, const_val, err_of, TooManyPaths, strip_refs
from mirlib import AnchorMissing, loc_of, mac_of, callee_name


def last2(path):
    """drop lower-case module prefixes: `a::b::Type::method` -> `Type::method`,
    `<a::T as b::Tr<c::U>>::m` -> `<T as Tr<U>>::m`"""
    return re.sub(r"\b(?:[a-z_][a-z0-9_#]*::)+", "", path)


def adt_short(adt, variant):
    segs = adt.split("::")
    base = segs[-1]
    # keep one module level for names that exist in several modules (ParseError, IoReadError)
    if base in ("ParseError", "IoReadError", "IoWriteError", "Stream", "Datagram") and len(segs) >= 2:
        base = segs[-2] + "::" + base
    if variant and variant != base.split("::")[-1]:
        return base + "::" + variant
    return base


_DEPTH = [None]


class depth_limit:
    """with depth_limit(n): canon() abbreviates sub-expressions nested deeper than n as `…`"""

    def __init__(self, n):
        self.n = n

    def __enter__(self):
        self.old = _DEPTH[0]
        _DEPTH[0] = self.n

    def __exit__(self, *a):
        _DEPTH[0] = self.old


_APPLY_CACHE = {}


_TRIVIAL = {}
_INT_WIDEN = re.compile(r"<impl (?:std::convert::|core::convert::)?From<(u8|u16|u32|u64|i8|i16|i32|i64|bool)> for (u16|u32|u64|u128|usize|i16|i32|i64|i128|isize)>::from$")


def _trivial_ctor(name, nargs):
    """(adt path, variant, variant index) when the local function `name` does nothing but build that aggregate from its parameters,
    in order (a newtype / plain-struct constructor); None otherwise.  Decided from the function's body on the current tree."""
    if not name.startswith(("wtransport::", "wtransport_proto::", "<wtransport")) or nargs == 0:
        return None
    key = (name, nargs)
    if key in _TRIVIAL:
        return _TRIVIAL[key]
    _TRIVIAL[key] = None   # (also stops re-entrance while the body is walked)
    import mirlib
    res = None
    for prog in mirlib.PROGS:
        l = prog.fns.get(name)
        if not l or len(l) != 1 or l[0].body is None or l[0].body.get("argc") != nargs:
            continue
        try:
            ps = Walker(l[0]).run()
        except Exception:
            break
        if len(ps) == 1 and ps[0].leaf[0] == "return" and all(ev[0] == "agg" for ev in ps[0].events):
            v = strip_refs(ps[0].leaf[1])
            if isinstance(v, tuple) and v[0] == "agg" and v[1] == "adt" and len(v[5]) == nargs and \
                    all(isinstance(o, tuple) and o[0] == "p" and o[1] == i + 1 for i, o in enumerate(v[5])):
                res = (v[2], v[3], v[4])
        break
    _TRIVIAL[key] = res
    return res


def _apply_value(e):
    """value of `f(arg)` for the error-mapping closure / fn item of `map_err(f)` and `ok_or_else(f)`: the closure body is walked
    with its captures and argument substituted; None when it is not a single straight-line return"""
    try:
        if e in _APPLY_CACHE:
            return _APPLY_CACHE[e]
    except TypeError:
        return None
    import mirlib
    res = None
    f = strip_refs(e[1])
    args = tuple(e[2:])
    if isinstance(f, tuple) and f[0] == "fnref":
        res = ("call", f[1], args, 0)
    elif isinstance(f, tuple) and f[0] == "agg" and f[1] == "closure":
        for prog in mirlib.PROGS:
            if f[2] in prog.fns:
                try:
                    ps = [p for p in apply_closure(prog, f, args) if p.leaf[0] not in ("panic", "unwind", "unreachable")]
                except Exception:
                    ps = []
                if len(ps) == 1 and ps[0].leaf[0] == "return":
                    res = ps[0].leaf[1]
                break
    _APPLY_CACHE[e] = res
    return res


SLICE_INDEX_CALL = re.compile(r"<impl (std::ops::)?Index(Mut)?<I> for (\[T\]|\[T; N\]|std::vec::Vec<T, A>|str|std::string::String)>::index(_mut)?$")
SPLIT_AT_CALL = re.compile(r"^(std|core)::(slice::<impl \[T\]>|str::<impl str>)::split_at(_mut)?$")
SLICE_GET_CALL = re.compile(r"^(std|core)::(slice::<impl \[T\]>|str::<impl str>)::get(_mut)?$")


def _is_range(r):
    r = strip_refs(r)
    return isinstance(r, tuple) and r[0] == "agg" and r[1] == "adt" and re.search(r"ops::Range\w*$", r[2]) is not None


def _range_str(r, keep_sites, canon):
    r = strip_refs(r)
    if _is_range(r):
        kind = r[2].split("::")[-1]
        ops = [canon(x, keep_sites) for x in r[5]]
        if kind == "Range" and len(ops) == 2:
            return "%s..%s" % (ops[0], ops[1])
        if kind == "RangeFrom" and len(ops) == 1:
            return "%s.." % ops[0]
        if kind == "RangeTo" and len(ops) == 1:
            return "..%s" % ops[0]
        if kind == "RangeFull":
            return ".."
        if kind == "RangeToInclusive" and len(ops) == 1:
            return "..=%s" % ops[0]
    return canon(r, keep_sites)


CONV = re.compile(r"(^|<.* as )std::convert::(From|Into)(<.*>)?(>)?::(from|into)$|<impl (std::convert::)?(From|Into)<.*> for .*>::(from|into)$")


def strip_conv(e):
    """drop a top-level `From::from` / `Into::into` (error conversion)"""
    while isinstance(e, tuple) and e and e[0] == "call" and len(e[2]) == 1 and CONV.search(e[1]):
        e = e[2][0]
    return e


def canon(e, keep_sites=False):
    return _canon(e, keep_sites, 0)


def _canon(e, keep_sites, _d):
    """canonical string of an expression: names + constants, no block numbers"""
    if not isinstance(e, tuple) or not e:
        return repr(e)
    if _DEPTH[0] is not None and _d > _DEPTH[0]:
        return "…"

    def canon(x, ks=False):
        return _canon(x, ks, _d + 1)
    k = e[0]
    if k == "c":
        v = e[2]
        if isinstance(v, bool):
            return "true" if v else "false"
        if isinstance(v, int):
            return str(v)
        return mem_str(v)
    if k == "cn":
        v = const_val(e)
        nm = last2(e[1])
        if isinstance(v, int) and not isinstance(v, bool):
            base = e[1][:-2] if e[1].endswith(".0") else e[1]
            vc = vocab_consts()
            if vc and base.startswith(("wtransport::", "wtransport_proto::")) and base not in vc:
                return str(v)   # a named constant introduced after the reference tree: it is its value
            return "%s=%d" % (nm, v)
        return nm
    if k == "fnref":
        return "fn:" + last2(e[1])
    if k in ("p", "up"):
        return e[2]
    if k == "l":
        return "_"
    if k == "lv":
        return "%s@loop" % (e[3] or "_")
    if k == "cparam":
        return e[1]
    if k == "call":
        if len(e[2]) == 2 and SLICE_INDEX_CALL.search(e[1]):
            # one notation for every way of taking a sub-slice: s[a..b]
            return "%s[%s]" % (canon(e[2][0], keep_sites), _range_str(e[2][1], keep_sites, canon))
        m_ = _INT_WIDEN.search(e[1]) if len(e[2]) == 1 else None
        if m_:
            # `i64::from(x)` for a narrower integer x is the lossless `x as i64`
            return "(%s as %s)" % (canon(e[2][0], keep_sites), m_.group(2))
        tc = _trivial_ctor(e[1], len(e[2]))
        if tc is not None:
            # `T::new(a, b)` whose body is `T(a, b)` / `T { f: a, g: b }` and nothing else: one spelling for both
            return canon(("agg", "adt", tc[0], tc[1], tc[2], tuple(e[2])), keep_sites)
        s = "%s(%s)" % (last2(e[1]), ",".join(canon(a, keep_sites) for a in e[2]))
        return s + ("@%d" % e[3] if keep_sites else "")
    if k == "f":
        b = e[1]
        bb = strip_refs(b)
        if isinstance(bb, tuple) and bb[0] == "call" and len(bb[2]) == 2 and SPLIT_AT_CALL.search(bb[1]) and e[2] in (0, 1, "0", "1"):
            n = canon(bb[2][1], keep_sites)
            return "%s[%s]" % (canon(bb[2][0], keep_sites), (".." + n) if str(e[2]) == "0" else (n + ".."))
        if isinstance(b, tuple) and b[0] == "dc" and e[2] in (0, "0"):
            # payload of a known variant: `(x as Ok).0` / `(x as Some).0` is what `x?` continues with, `(x as Err).0` what it returns
            if b[2] in ("Ok", "Some"):
                return canon(("ok", b[1]), keep_sites)
            if b[2] == "Err":
                return "err(%s)" % canon(b[1], keep_sites)
        return "%s.%s" % (canon(e[1], keep_sites), e[2])
    if k == "dc":
        return "(%s as %s)" % (canon(e[1], keep_sites), e[2])
    if k == "agg":
        if e[1] == "adt":
            nm = adt_short(e[2], e[3])
            if not e[5]:
                return nm
            if nm == "Result::Err" and len(e[5]) == 1:
                # the error conversion of `?` / `.into()` / `From::from` is type-directed: not part of the table
                return "Result::Err(%s)" % canon(strip_conv(e[5][0]), keep_sites)
            return "%s(%s)" % (nm, ",".join(canon(a, keep_sites) for a in e[5]))
        if e[1] == "tuple":
            return "(%s)" % ",".join(canon(a, keep_sites) for a in e[5])
        if e[1] == "array":
            return "[%s]" % ",".join(canon(a, keep_sites) for a in e[5])
        return "%s:%s" % (e[1], last2(e[2]))
    if k == "bin":
        return "%s(%s,%s)" % (e[1], canon(e[2], keep_sites), canon(e[3], keep_sites))
    if k == "un":
        return "%s(%s)" % (e[1], canon(e[2], keep_sites))
    if k == "cast":
        return "(%s as %s)" % (canon(e[2], keep_sites), e[3])
    if k in ("ref", "deref"):
        # borrows and derefs are invisible in the normal form: `&x`, `*x`, `&*x` all denote x (the type system, not the table, owns them)
        return canon(e[1], keep_sites)
    if k == "discr":
        return "discr(%s)" % canon(e[1], keep_sites)
    if k == "idx":
        return "%s[%s]" % (canon(e[1], keep_sites), canon(e[2], keep_sites))
    if k == "rep":
        return "[%s;%s]" % (canon(e[1], keep_sites), e[2])
    if k in ("some", "ok"):
        g = strip_refs(e[1])
        if isinstance(g, tuple) and g[0] == "call" and len(g[2]) == 2 and SLICE_GET_CALL.search(g[1]) and _is_range(g[2][1]):
            return "%s[%s]" % (canon(g[2][0], keep_sites), _range_str(g[2][1], keep_sites, canon))   # `s.get(a..b)?` is `s[a..b]` once it succeeded
        return "ok(%s)" % canon(e[1], keep_sites)
    if k in ("await", "poll", "branch", "resid", "err"):
        return "%s(%s)" % (k, canon(e[1], keep_sites))
    if k == "errret":
        # what `x?` returns, spelled like the explicit `return Err(e)` of the function's return type
        ty = e[2] if len(e) > 2 else ""
        er = err_of(e[1])
        if ty.startswith("std::option::Option<") and not (isinstance(er, tuple) and er[0] != "err"):
            return "Option::None"
        inner = "Result::Err(%s)" % canon(strip_conv(er), keep_sites)
        if ty.startswith("std::task::Poll<std::option::Option<"):
            return "Poll::Ready(Option::Some(%s))" % inner
        if ty.startswith("std::task::Poll<"):
            return "Poll::Ready(%s)" % inner
        return inner
    if k == "apply":
        r = _apply_value(e)
        if r is not None:
            return canon(r, keep_sites)
        return "apply(%s)" % ",".join(canon(a, keep_sites) for a in e[1:])
    return "%s(…)" % k


def mem_str(v):
    """decoded constant memory (frozen by pathwalk._freeze) -> short stable text"""
    if isinstance(v, tuple) and v and all(isinstance(x, tuple) and len(x) == 2 and isinstance(x[0], str) for x in v):
        d = dict(v)
        if "adt" in d and "fields" in d:
            return "%s{%s}" % (str(d["adt"]).split("::")[-1], ",".join(mem_str(x) for x in d["fields"]))
    if isinstance(v, tuple):
        return "(%s)" % ",".join(mem_str(x) for x in v)
    if isinstance(v, bytes):
        try:
            return repr(v.decode())
        except Exception:
            return repr(v)
    return repr(v)


def mem_fields(e):
    """(adt short name, [field values]) of a constant struct expression, or None"""
    v = const_val(e)
    if isinstance(v, tuple) and v and all(isinstance(x, tuple) and len(x) == 2 and isinstance(x[0], str) for x in v):
        d = dict(v)
        if "adt" in d and "fields" in d:
            return str(d["adt"]).split("::")[-1], list(d["fields"])
    return None


def chain_of(subj):
    """subject of an `is` atom -> (root expression, [variant names walked through])"""
    names = []
    e = subj
    while isinstance(e, tuple):
        if e[0] == "f" and isinstance(e[1], tuple) and e[1][0] == "dc":
            names.append(e[1][2])
            e = e[1][1]
        elif e[0] == "dc":
            names.append(e[2])
            e = e[1]
        elif e[0] in ("ref", "deref"):
            e = e[1]
        elif e[0] == "some":
            names.append("Some")
            e = e[1]
        elif e[0] == "ok":
            names.append("Ok")
            e = e[1]
        elif e[0] == "f" and isinstance(e[1], tuple) and e[1][0] in ("ref", "deref"):
            break
        else:
            break
    return e, list(reversed(names))


def patterns(path, root_pred):
    """variant patterns a path imposes on roots selected by root_pred(expr)->bool.
    returns dict root_canon -> longest '/'-joined variant chain (e.g. 'Err/Parse/UnknownFrame')."""
    res = {}
    for a in path.atoms:
        if a[0] == "is":
            root, names = chain_of(a[1])
            if root_pred(root):
                ch = names + [a[2]]
                key = canon(root)
                if key not in res or len(ch) > len(res[key]):
                    res[key] = ch
        elif a[0] == "try":
            root, names = chain_of(a[1])
            if root_pred(root):
                ch = names + ["Ok" if a[2] else "Err"]
                key = canon(root)
                if key not in res or len(ch) > len(res[key]):
                    res[key] = ch
        elif a[0] == "isnot":
            root, names = chain_of(a[1])
            if root_pred(root):
                ch = names + ["!" + "|".join(a[2])]
                key = canon(root)
                if key not in res or len(ch) > len(res[key]):
                    res[key] = ch
    return {k: "/".join(v) for k, v in res.items()}


def is_call_to(e, regex):
    e = strip_refs(e)
    if isinstance(e, tuple) and e[0] == "await":
        e = strip_refs(e[1])
    return isinstance(e, tuple) and e[0] == "call" and re.search(regex, e[1]) is not None


def leaf_str(leaf):
    if leaf[0] == "return":
        return "return " + canon(leaf[1])
    if leaf[0] == "loop":
        return "continue"
    if leaf[0] == "panic":
        return "panic:" + last2(leaf[1])
    return leaf[0]


def walk(fn, **kw):
    return Walker(fn, **kw).run()


def apply_closure(prog, agg, args=(), **kw):
    """paths of a closure body applied to `args`, with its captured variables replaced by the expressions the parent
    captured (`agg` = the ('agg','closure',did,..,ops) expression built in the parent)"""
    a = agg
    while isinstance(a, tuple) and a and a[0] in ("ref", "deref"):
        a = a[1]
    if not (isinstance(a, tuple) and a[0] == "agg" and a[1] == "closure"):
        return None
    fn = prog.fn(a[2])
    env = {1: a}
    for i, x in enumerate(args):
        env[2 + i] = x
    return Walker(fn, env1=env, **kw).run()


def variant_table(paths, variants):
    """{variant: [paths]} for a function that matches on one enum value: a path belongs to variant V when it carries `x is V`, or
    `x isnot {..}` (the wildcard / otherwise arm) with V not excluded — so explicit arms, or-patterns and `_ =>` arms all resolve"""
    subj = None
    for p in paths:
        for a in p.atoms:
            if a[0] in ("is", "isnot"):
                subj = a[1]
                break
        if subj is not None:
            break
    out = {v: [] for v in variants}
    for p in paths:
        is_v = [a[2] for a in p.atoms if a[0] == "is" and a[1] == subj]
        not_v = [set(a[2]) for a in p.atoms if a[0] == "isnot" and a[1] == subj]
        for v in variants:
            if is_v:
                if v == is_v[0]:
                    out[v].append(p)
            elif not_v:
                if all(v not in s for s in not_v):
                    out[v].append(p)
            elif subj is None:
                out[v].append(p)   # no match at all: the same result for every variant
    return out


def nonpanic(paths):
    return [p for p in paths if p.leaf[0] not in ("panic", "unwind", "unreachable")]


def const_int(prog, path):
    c = prog.const(path)
    v = c.get("val", {})
    if "int" in v:
        return int(v["int"])
    raise AnchorMissing("constant %s has no integer value" % path)


def where(fn):
    return fn.at


def conds(path):
    return [show_atom(a) for a in path.atoms]


# ------------------------------------------------------------------ table matching

OPS = {"Eq": "==", "Ne": "!=", "Lt": "<", "Le": "<=", "Gt": ">", "Ge": ">="}


def atom_str(a):
    k = a[0]
    if k == "is":
        if a[2] in ("Ok", "Some"):
            return "%s ok" % canon(a[1])
        if a[2] in ("Err", "None"):
            return "%s fails" % canon(a[1])
        return "%s is %s" % (canon(a[1]), a[2])
    if k == "isnot":
        return "%s isnot %s" % (canon(a[1]), "|".join(a[2]))
    if k == "cond":
        return ("" if a[2] else "!") + canon(a[1])
    if k == "cmp":
        return "%s %s %s" % (canon(a[2]), OPS[a[1]], canon(a[3]))
    if k == "try":
        return "%s %s" % (canon(a[1]), "ok" if a[2] else "fails")
    if k == "eq":
        return "%s == %s" % (canon(a[1]), a[2])
    if k == "notin":
        return "%s notin %s" % (canon(a[1]), list(a[2]))
    return str(a)


def path_sig(p):
    return (tuple(atom_str(a) for a in p.atoms), leaf_str(p.leaf))


def event_strs(p):
    out = []
    for e in p.events:
        if e[0] == "call":
            out.append(canon(("call", e[1], e[2], 0)))
        elif e[0] == "await":
            out.append("await " + canon(e[1]))
        elif e[0] == "store":
            out.append("store %s := %s" % (canon(e[1]), canon(e[2])))
    return out


class _ImpliedIsNot(str):
    """pseudo atom `x isnot <anything but V>`: matches a row regex `^x isnot W$` when W != V (and W is not a list containing V)"""
    def __new__(cls, prefix, variant):
        o = str.__new__(cls, prefix + "\u2260" + variant)
        o.prefix, o.variant = prefix, variant
        return o


_re_search = re.search


def _atom_search(rx, a):
    if isinstance(a, _ImpliedIsNot):
        # try every variant name mentioned literally in the row regex as the excluded one
        for m in re.finditer(r"isnot \(?([A-Za-z_|]+)\)?\$?", rx):
            names = [n for n in m.group(1).split("|") if n]
            if names and a.variant not in names and _re_search(rx, a.prefix + "|".join(names)):
                return True
        return False
    return _re_search(rx, a)


def match_table(ctx, rid, fn, paths, rows, what, ignore_panics=True, extra_ok=None):
    """Decision-table equality: every (non-panic) path of `fn` must match exactly one
    expected row, every expected row must be matched by at least one path.
    rows: list of dict(name=..., atoms=[regex,...] (each must match some atom),
                       not_atoms=[regex..] (must match no atom), leaf=regex)"""
    used = {r["name"]: 0 for r in rows}
    ok = True
    for p in paths:
        if ignore_panics and p.leaf[0] in ("panic", "unwind", "unreachable"):
            continue
        atoms, leaf = path_sig(p)
        # `x is V` implies `x isnot W` for every other variant W: a wildcard arm and an exhaustive match over the other variants
        # are the same decision, so an explicit arm satisfies a row written against the wildcard (`... isnot W`)
        implied = []
        for a in p.atoms:
            if a[0] == "is" and a[2] not in ("Ok", "Some", "Err", "None"):
                implied.append(("%s isnot " % canon(a[1]), a[2]))
        if implied:
            atoms = tuple(atoms) + tuple(_ImpliedIsNot(pre, v) for pre, v in implied)
        evs = event_strs(p)
        hits = []
        for r in rows:
            if not re.search(r["leaf"], leaf):
                continue
            if all(any(_atom_search(rx, a) for a in atoms) for rx in r.get("atoms", [])) and \
               not any(any(_atom_search(rx, a) for a in atoms) for rx in r.get("not_atoms", [])) and \
               all(any(re.search(rx, a) for a in evs) for rx in r.get("events", [])) and \
               not any(any(re.search(rx, a) for a in evs) for rx in r.get("not_events", [])):
                hits.append(r["name"])
        if len(hits) == 1:
            used[hits[0]] += 1
        elif len(hits) == 0:
            if extra_ok and extra_ok(atoms, leaf):
                continue
            ok = False
            shown = [a for a in atoms if not isinstance(a, _ImpliedIsNot)]
            ctx.violation(rid, "%s|unexpected-row|%s => %s" % (what, " & ".join(shown)[-300:], leaf[-200:]),
                          "%s: path not in the reference table: IF %s THEN %s" % (what, " & ".join(shown), leaf),
                          where(fn))
        else:
            ok = False
            ctx.violation(rid, "%s|ambiguous-row|%s" % (what, ",".join(hits)),
                          "%s: path matches several reference rows %s: IF %s THEN %s" % (what, hits, " & ".join(a for a in atoms if not isinstance(a, _ImpliedIsNot)), leaf),
                          where(fn))
    for name, n in used.items():
        if n == 0:
            ok = False
            ctx.violation(rid, "%s|missing-row|%s" % (what, name),
                          "%s: reference row '%s' has no corresponding path in the code" % (what, name), where(fn))
        else:
            ctx.ok(rid, "%s|row|%s" % (what, name))
    return ok


def construction_sites(prog, adt, crates=("wtransport_proto", "wtransport")):
    """yield (fn, path, ops, atoms_before) for every aggregate construction of `adt`"""
    for fn in prog.fn_list:
        body = fn.body
        if not body:
            continue
        hit = False
        for bb in body["blocks"]:
            for st in bb["s"]:
                if st["k"] == "assign" and st["rv"]["k"] == "agg" and st["rv"].get("adt") == adt:
                    hit = True
        if not hit:
            continue
        try:
            paths = walk(fn)
        except TooManyPaths:
            yield fn, None, None, None
            continue
        for p in paths:
            for e in p.events:
                if e[0] == "agg" and e[1] == adt:
                    yield fn, p, e[3], p.atoms[:e[5]]


def call_sites(prog, callee_regex):
    """yield (fn, path, event, atoms_before) for every call whose resolved name matches"""
    rx = re.compile(callee_regex)
    for fn in prog.fn_list:
        body = fn.body
        if not body:
            continue
        hit = False
        for bb in body["blocks"]:
            t = bb["t"]
            if t["k"] == "call" and rx.search(callee_name(t["f"])):
                hit = True
        if not hit:
            continue
        try:
            paths = walk(fn)
        except TooManyPaths:
            yield fn, None, None, None
            continue
        for p in paths:
            for e in p.events:
                if e[0] == "call" and rx.search(e[1]):
                    yield fn, p, e, p.atoms[:e[6]]
