#!/usr/bin/env python3
"""Generate /verif/MANIFEST.json from the rule modules that exist."""
import json
import os
import sys

HERE = os.path.dirname(os.path.abspath(__file__))
VERIF = os.path.dirname(HERE)
sys.path.insert(0, HERE)

META = {
    # pid: (technique, level text, level note, design ref)
}

DEFAULT_NOTE = ("Trusted: rustc nightly (type checking, MIR construction, coroutine layout, const evaluation); the "
                "reference tables in /verif/spec transcribed from the RFCs; semantics of quinn/rustls/tokio leaf functions. "
                "Decides the structural clauses listed in DESIGN.md §5 for this property, not the run-time behaviour as a whole.")


def main():
    props = [json.loads(l) for l in open(os.path.join(VERIF, "properties.jsonl"))]
    checks = []
    na = []
    for p in props:
        pid = p["id"]
        modp = os.path.join(HERE, "rules", "%s.py" % pid)
        if os.path.exists(modp):
            import importlib
            mod = importlib.import_module("rules.%s" % pid)
            checks.append({
                "property_id": pid,
                "quick_cmd": "./check %s --tier quick" % pid,
                "thorough_cmd": "./check %s --tier thorough" % pid,
                "evidence_file": "/verif/evidence/%s.json" % pid,
                "replay_cmd_template": "./check %s --replay {path}" % pid,
                "engine": "wtfacts+rules",
                "level_claimed": {
                    "category": "other",
                    "text": getattr(mod, "LEVEL", mod.EXPLANATION),
                    "design_ref": "DESIGN.md §5 %s" % pid,
                },
                "level_note": getattr(mod, "LEVEL_NOTE", DEFAULT_NOTE) + " Not decided: " + "; ".join(mod.NOT_DECIDED),
                "technique": getattr(mod, "TECHNIQUE", "static analysis over rustc MIR: path-sensitive decision-table extraction compared with reference tables"),
            })
        else:
            na.append({"property_id": pid, "reason": "check under construction in this round (design in DESIGN.md §5); not yet claimed"})
    man = {
        "version": 1,
        "setup_cmd": "./setup.sh",
        "hooks": {
            "guard": "wtransport_verif",
            "enable": "none needed: the analysis reads the compiler's view of the unmodified source (RUSTC_WORKSPACE_WRAPPER driver); no cfg-guarded hook exists in /repo",
            "baseline_off_cmd": "cd /repo && cargo test --workspace --no-fail-fast --offline",
            "source_commits": [],
            "add_only": True,
        },
        "engines": [
            {"name": "wtfacts", "path": "driver/", "serves_properties": [c["property_id"] for c in checks],
             "kind_free_text": "rustc_private driver (nightly) serialising MIR, pre-transform coroutine bodies, coroutine layouts, evaluated constants, ADTs and impls of the current working tree"},
            {"name": "rules", "path": "engine/", "serves_properties": [c["property_id"] for c in checks],
             "kind_free_text": "Python rule engines over the facts: CFG/dominators/SCC, path-sensitive table extraction, coroutine witness analysis, obligations, compile-fail witnesses"},
        ],
        "checks": checks,
        "not_applicable": na,
        "notes": "Static analysis only (see DESIGN.md). Every check re-extracts facts from /repo's current working tree when its content hash changed.",
    }
    json.dump(man, open(os.path.join(VERIF, "MANIFEST.json"), "w"), indent=1)
    print("MANIFEST: %d checks, %d not_applicable" % (len(checks), len(na)))


if __name__ == "__main__":
    main()
