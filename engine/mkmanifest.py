#!/usr/bin/env python3
"""Generate /verif/MANIFEST.json from the rule modules that exist."""
import json
import os
import sys

HERE = os.path.dirname(os.path.abspath(__file__))
VERIF = os.path.dirname(HERE)
sys.path.insert(0, HERE)

META = {
    # pid: technique (the deciding method, in a few words)
    "C01": "MIR path walk: wire I/O sequences of preamble writers/readers vs reference tables; write_all/commit must-pass-through; typestate compile-fail witnesses",
    "C02": "decision-table extraction over MIR + const-evaluated QPACK static table vs RFC 9204; string algebra for :authority/:path; encoder/decoder sibling cross-check",
    "C03": "decision tables + interval obligations on datagram offset arithmetic; ownership witnesses (private payload field, no Clone)",
    "C04": "decision-table equality of ConnectStream::run / capsule parser / error-mapping functions against the reference attribution tables; must-pass-through of driver_result.set",
    "C05": "coroutine-layout analysis: select!-in-loop branch futures classified for partially-consumed-frame state (cancel-safety of reads); decision tables of the control-stream runners",
    "C06": "decision tables of finish/reset/stop wrappers and error conversions (code carried unchanged); ordering rule finish-before-stopped on every path",
    "C07": "coroutine witnesses: bounded hand-off resources owned across peer-paced awaits; worker select loop suspends only at select!, acceptor branches await no stream read",
    "C08": "typestate/ownership: permit-before-pull ordering on every path, no dequeued value owned across a later suspension, hand-off tables, non-Clone witnesses",
    "C09": "set-once / must-set dominance on the worker exit paths; attribution decision tables; select-branch presence (closed()) from coroutine layout; panic inventory",
    "C10": "guard-dominance on the accepting paths of the certificate-hash verifier (all guards, polarity, comparator, constant 14 days, P-256) + who-may-construct / feature-gate witnesses",
    "C11": "obligation discharge: every Assert/panic/index/lossy-arithmetic site reachable from the network-facing decoders is discharged by path guards (intervals) or a machine-checked lemma",
    "C12": "decision-table equality: validate_frame / stream-type / settings / control-stream runner tables vs RFC 9114 + WebTransport draft tables (exhaustive over enum variants)",
    "C13": "decision tables for unknown/GREASE ids (parse tables over evaluated constants, skip rows without side-effect events); resource-held-across-await witness for drains",
    "C14": "sibling agreement writer/reader (wire sequences, thresholds, size functions) from evaluated constants and path tables; exact-slice rule on buffers",
    "C15": "sibling cross-check of the three decoding front-ends (slice / buffer / async) + commit-only-on-success dominance + poll-state-machine rules on GetVarint/GetBuffer",
    "C16": "emission-site rules: every emitted id/constant from the registry tables, pseudo-header ordering key, StatusCode interval invariant at every construction site",
    "C17": "identifier algebra as evaluated constants and path tables (quarter id <-> session id), session filters on every delivery path with polarity, private-constructor witnesses",
    "C18": "guard-dominance on request/response admission (five guards, one error each), interval invariant of StatusCode constructions, reserved-name guard and store identity",
    "C19": "structural necessary conditions: builder chain constants (<=14 days, P-256), PEM tags, who-may-construct Certificate, parser-family token-flow and exact-length rules, formatter/parser agreement",
    "C20": "setter-to-quinn dataflow tables for each configuration knob, representability refusal rows, builder typestate compile-fail witnesses, feature-gate witness",
}

DEFAULT_NOTE = ("Trusted: rustc nightly (type checking, MIR construction, coroutine layout, const evaluation); the "
                "reference tables in /verif/spec transcribed from the RFCs; semantics of quinn/rustls/tokio leaf functions. "
                "Decides the structural clauses listed in DESIGN.md §5 for this property, not the run-time behaviour as a whole.")


def main():
    props = [json.loads(l) for l in open(os.path.join(VERIF, "properties.jsonl"))]
    checks = []
    na = []
    for p in props:
        pid = p["id"]
        modp = os.path.join(HERE, "rules", "%s.py" % pid)
        if os.path.exists(modp):
            import importlib
            mod = importlib.import_module("rules.%s" % pid)
            checks.append({
                "property_id": pid,
                "quick_cmd": "./check %s --tier quick" % pid,
                "thorough_cmd": "./check %s --tier thorough" % pid,
                "evidence_file": "/verif/evidence/%s.json" % pid,
                "replay_cmd_template": "./check %s --replay {path}" % pid,
                "engine": "wtfacts+rules",
                "level_claimed": {
                    "category": "other",
                    "text": "Static decision of the structural clauses of the property on every path of the anchored functions of the current tree "
                            "(no execution, no sampling): " + getattr(mod, "LEVEL", mod.EXPLANATION) + " This is the level static analysis can reach soundly here: "
                            "the clauses are necessary conditions of the behaviour (breaking one breaks the behaviour); run-time quantities listed under 'Not decided' are left out rather than approximated.",
                    "design_ref": "DESIGN.md §5 %s" % pid,
                },
                "level_note": getattr(mod, "LEVEL_NOTE", DEFAULT_NOTE) + " Not decided: " + "; ".join(mod.NOT_DECIDED),
                "technique": "static analysis (custom rustc MIR driver + rule engine): " + META.get(pid, "path-sensitive decision-table extraction compared with reference tables"),
            })
        else:
            na.append({"property_id": pid, "reason": "check under construction in this round (design in DESIGN.md §5); not yet claimed"})
    man = {
        "version": 1,
        "setup_cmd": "./setup.sh",
        "hooks": {
            "guard": "wtransport_verif",
            "enable": "none needed: the analysis reads the compiler's view of the unmodified source (RUSTC_WORKSPACE_WRAPPER driver); no cfg-guarded hook exists in /repo",
            "baseline_off_cmd": "cd /repo && cargo test --workspace --no-fail-fast --offline",
            "source_commits": [],
            "add_only": True,
        },
        "engines": [
            {"name": "wtfacts", "path": "driver/", "serves_properties": [c["property_id"] for c in checks],
             "kind_free_text": "rustc_private driver (nightly) serialising MIR, pre-transform coroutine bodies, coroutine layouts, evaluated constants, ADTs and impls of the current working tree"},
            {"name": "rules", "path": "engine/", "serves_properties": [c["property_id"] for c in checks],
             "kind_free_text": "Python rule engines over the facts: CFG/dominators/SCC, path-sensitive table extraction, coroutine witness analysis, obligations, compile-fail witnesses"},
        ],
        "checks": checks,
        "not_applicable": na,
        "notes": "Static analysis only (see DESIGN.md). Every check re-extracts facts from /repo's current working tree when its content hash changed.",
    }
    json.dump(man, open(os.path.join(VERIF, "MANIFEST.json"), "w"), indent=1)
    print("MANIFEST: %d checks, %d not_applicable" % (len(checks), len(na)))


if __name__ == "__main__":
    main()
