//! wtfacts — E0 fact extractor for the /verif static checks.
//!
//! Runs as RUSTC_WORKSPACE_WRAPPER under `cargo +nightly check`. For every workspace
//! member it serialises, after analysis, the type-checked program (items, evaluated
//! constants, ADTs, impls, MIR bodies, coroutine layouts) into one JSON file.
//! It contains no rule: all rules live in /verif/engine (Python).
#![feature(rustc_private)]
#![allow(clippy::all)]

extern crate rustc_abi;
extern crate rustc_ast;
extern crate rustc_const_eval;
extern crate rustc_data_structures;
extern crate rustc_driver;
extern crate rustc_hir;
extern crate rustc_index;
extern crate rustc_interface;
extern crate rustc_middle;
extern crate rustc_session;
extern crate rustc_span;

mod json;
mod extract;

use rustc_driver::{Callbacks, Compilation};
use rustc_interface::interface::Compiler;
use rustc_middle::ty::TyCtxt;

use rustc_hir::def_id::LocalDefId;
use rustc_middle::mir::Body;
use std::collections::HashMap;
use std::sync::Mutex;

/// Copies of the pre-state-transform MIR of coroutine bodies, taken by the overridden
/// `mir_promoted` provider before anything can steal it.
static PRE: Mutex<Option<HashMap<u32, usize>>> = Mutex::new(None);
static ORIG: Mutex<Option<usize>> = Mutex::new(None);

type Ret<'tcx> = (
    &'tcx rustc_data_structures::steal::Steal<Body<'tcx>>,
    &'tcx rustc_data_structures::steal::Steal<
        rustc_index::IndexVec<rustc_middle::mir::Promoted, Body<'tcx>>,
    >,
);
type Prov = for<'tcx> fn(TyCtxt<'tcx>, LocalDefId) -> Ret<'tcx>;

fn my_mir_promoted<'tcx>(tcx: TyCtxt<'tcx>, def: LocalDefId) -> Ret<'tcx> {
    let orig: Prov = unsafe { std::mem::transmute::<usize, Prov>(ORIG.lock().unwrap().unwrap()) };
    let r = orig(tcx, def);
    if tcx.is_coroutine(def.to_def_id()) {
        let copy: Body<'tcx> = r.0.borrow().clone();
        let leaked: *mut Body<'tcx> = Box::into_raw(Box::new(copy));
        let mut g = PRE.lock().unwrap();
        g.get_or_insert_with(HashMap::new)
            .insert(def.local_def_index.as_u32(), leaked as usize);
    }
    r
}

pub fn saved_pre_body<'tcx>(_tcx: TyCtxt<'tcx>, def: LocalDefId) -> Option<&'tcx Body<'tcx>> {
    let g = PRE.lock().unwrap();
    let p = *g.as_ref()?.get(&def.local_def_index.as_u32())?;
    Some(unsafe { &*(p as *const Body<'tcx>) })
}

struct Cb;

impl Callbacks for Cb {
    fn config(&mut self, config: &mut rustc_interface::interface::Config) {
        config.override_queries = Some(|_sess, providers| {
            let orig = providers.queries.mir_promoted;
            *ORIG.lock().unwrap() = Some(orig as usize);
            providers.queries.mir_promoted = my_mir_promoted;
        });
    }

    fn after_analysis<'tcx>(&mut self, _c: &Compiler, tcx: TyCtxt<'tcx>) -> Compilation {
        let out = match std::env::var("WTFACTS_OUT") {
            Ok(o) => o,
            Err(_) => return Compilation::Continue,
        };
        let krate = tcx.crate_name(rustc_span::def_id::LOCAL_CRATE).to_string();
        let wanted = std::env::var("WTFACTS_CRATES")
            .unwrap_or_else(|_| "wtransport,wtransport_proto".to_string());
        if !wanted.split(',').any(|w| w == krate) {
            return Compilation::Continue;
        }
        // skip build scripts / test harnesses
        if tcx.sess.opts.test {
            return Compilation::Continue;
        }
        let tag = std::env::var("WTFACTS_TAG").unwrap_or_else(|_| "A".to_string());
        let nonce = std::env::var("WTFACTS_NONCE").unwrap_or_default();
        let j = extract::extract(tcx, &krate, &tag, &nonce);
        let mut s = String::with_capacity(1 << 24);
        j.write(&mut s);
        let path = format!("{}/{}-{}.json", out, krate, tag);
        let tmp = format!("{}.tmp{}", path, std::process::id());
        std::fs::write(&tmp, s).expect("write facts");
        std::fs::rename(&tmp, &path).expect("rename facts");
        Compilation::Continue
    }
}

fn main() {
    let mut args: Vec<String> = std::env::args().collect();
    // RUSTC_WORKSPACE_WRAPPER: argv[1] is the path of the real rustc
    if args.len() > 1 && (args[1].ends_with("rustc") || args[1].contains("/rustc")) {
        args.remove(1);
    }
    let mut cb = Cb;
    rustc_driver::run_compiler(&args, &mut cb);
}
