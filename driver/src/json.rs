//! Minimal JSON value + writer (no external crates available to a rustc_private driver).
use std::fmt::Write;

#[derive(Clone, Debug)]
pub enum J {
    Null,
    Bool(bool),
    Int(i128),
    UInt(u128),
    Str(String),
    Arr(Vec<J>),
    Obj(Vec<(String, J)>),
}

impl J {
    pub fn s<S: Into<String>>(s: S) -> J {
        J::Str(s.into())
    }
    pub fn obj() -> ObjB {
        ObjB(Vec::new())
    }
    pub fn write(&self, out: &mut String) {
        match self {
            J::Null => out.push_str("null"),
            J::Bool(b) => out.push_str(if *b { "true" } else { "false" }),
            J::Int(i) => {
                // JSON numbers beyond 2^63 lose precision in some readers: emit big ints as strings
                if *i > i64::MAX as i128 || *i < i64::MIN as i128 {
                    let _ = write!(out, "\"{}\"", i);
                } else {
                    let _ = write!(out, "{}", i);
                }
            }
            J::UInt(u) => {
                // python reads arbitrary precision ints fine
                let _ = write!(out, "{}", u);
            }
            J::Str(s) => write_str(s, out),
            J::Arr(a) => {
                out.push('[');
                for (i, v) in a.iter().enumerate() {
                    if i > 0 {
                        out.push(',');
                    }
                    v.write(out);
                }
                out.push(']');
            }
            J::Obj(o) => {
                out.push('{');
                for (i, (k, v)) in o.iter().enumerate() {
                    if i > 0 {
                        out.push(',');
                    }
                    write_str(k, out);
                    out.push(':');
                    v.write(out);
                }
                out.push('}');
            }
        }
    }
}

fn write_str(s: &str, out: &mut String) {
    out.push('"');
    for c in s.chars() {
        match c {
            '"' => out.push_str("\\\""),
            '\\' => out.push_str("\\\\"),
            '\n' => out.push_str("\\n"),
            '\r' => out.push_str("\\r"),
            '\t' => out.push_str("\\t"),
            c if (c as u32) < 0x20 => {
                let _ = write!(out, "\\u{:04x}", c as u32);
            }
            c => out.push(c),
        }
    }
    out.push('"');
}

pub struct ObjB(Vec<(String, J)>);

impl ObjB {
    pub fn k<S: Into<String>>(mut self, k: S, v: J) -> Self {
        self.0.push((k.into(), v));
        self
    }
    pub fn ks<S: Into<String>, T: Into<String>>(self, k: S, v: T) -> Self {
        self.k(k, J::Str(v.into()))
    }
    pub fn ki<S: Into<String>>(self, k: S, v: usize) -> Self {
        self.k(k, J::UInt(v as u128))
    }
    pub fn kb<S: Into<String>>(self, k: S, v: bool) -> Self {
        self.k(k, J::Bool(v))
    }
    pub fn opt<S: Into<String>>(self, k: S, v: Option<J>) -> Self {
        match v {
            Some(v) => self.k(k, v),
            None => self,
        }
    }
    pub fn done(self) -> J {
        J::Obj(self.0)
    }
}
