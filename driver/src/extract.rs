use crate::json::J;
use rustc_hir::def::DefKind;
use rustc_hir::def_id::{DefId, LocalDefId, LOCAL_CRATE};
use rustc_middle::mir::interpret::{AllocId, GlobalAlloc, Scalar};
use rustc_middle::mir::{
    self, AggregateKind, AssertKind, BasicBlockData, Body, BorrowKind, CastKind, Const, ConstValue,
    Operand, Place, ProjectionElem, Rvalue, StatementKind, TerminatorKind, UnwindAction,
};
use rustc_middle::ty::{self, GenericArgsRef, Instance, Ty, TyCtxt, TyKind, TypingEnv};
use rustc_span::Span;

pub struct Cx<'tcx> {
    pub tcx: TyCtxt<'tcx>,
    pub krate: String,
    pub n_fns: usize,
    pub n_blocks: usize,
    pub n_calls: usize,
    pub n_asserts: usize,
    pub n_coroutines: usize,
    pub n_consts: usize,
}

/// Strip turbofish-style generic argument lists (`::<...>`) from a printed path.
pub fn strip_generics(s: &str) -> String {
    let b: Vec<char> = s.chars().collect();
    let mut out = String::with_capacity(s.len());
    let mut i = 0;
    while i < b.len() {
        let is_impl = i + 7 < b.len() && b[i + 3..i + 8].iter().collect::<String>() == "impl ";
        if i + 2 < b.len() && b[i] == ':' && b[i + 1] == ':' && b[i + 2] == '<' && !is_impl {
            // find matching '>'
            let mut depth = 0i32;
            let mut j = i + 2;
            let mut ok = false;
            while j < b.len() {
                if b[j] == '<' {
                    depth += 1;
                } else if b[j] == '>' {
                    // do not treat '->' as a bracket
                    if j > 0 && b[j - 1] == '-' {
                    } else {
                        depth -= 1;
                        if depth == 0 {
                            ok = true;
                            break;
                        }
                    }
                }
                j += 1;
            }
            if ok {
                i = j + 1;
                continue;
            }
        }
        out.push(b[i]);
        i += 1;
    }
    out
}

fn is_ident(c: char) -> bool {
    c.is_alphanumeric() || c == '_'
}

/// `crate::` (as a whole path segment) -> `<krate>::`
pub fn replace_crate(s: &str, krate: &str) -> String {
    let mut out = String::with_capacity(s.len() + 16);
    let b: Vec<char> = s.chars().collect();
    let pat: Vec<char> = "crate::".chars().collect();
    let mut i = 0;
    while i < b.len() {
        if i + pat.len() <= b.len() && b[i..i + pat.len()] == pat[..] && (i == 0 || !is_ident(b[i - 1])) {
            out.push_str(krate);
            out.push_str("::");
            i += pat.len();
        } else {
            out.push(b[i]);
            i += 1;
        }
    }
    out
}

/// Remove lifetime tokens (`'a`, `'_`, `'static`) with their separators.
pub fn strip_lifetimes(s: &str) -> String {
    let b: Vec<char> = s.chars().collect();
    let mut out: Vec<char> = Vec::with_capacity(b.len());
    let mut i = 0;
    while i < b.len() {
        if b[i] == '\'' {
            // char literal like 'x' ? (a quote follows within 2..3 chars) -> keep
            let mut j = i + 1;
            while j < b.len() && is_ident(b[j]) {
                j += 1;
            }
            if j < b.len() && b[j] == '\'' {
                // char literal
                for k in i..=j {
                    out.push(b[k]);
                }
                i = j + 1;
                continue;
            }
            if j == i + 1 {
                out.push(b[i]);
                i += 1;
                continue;
            }
            // lifetime token b[i..j]
            // followed by ", " -> drop both
            if j + 1 < b.len() && b[j] == ',' && b[j + 1] == ' ' {
                i = j + 2;
                continue;
            }
            // preceded by ", " -> drop the separator
            if out.len() >= 2 && out[out.len() - 1] == ' ' && out[out.len() - 2] == ',' {
                out.pop();
                out.pop();
                i = j;
                continue;
            }
            // followed by a space (`&'a T`, `&'a mut T`) -> drop the space too
            if j < b.len() && b[j] == ' ' {
                i = j + 1;
                continue;
            }
            // followed by " + " handled above by space rule; `<'a>` -> remove brackets
            if !out.is_empty() && out[out.len() - 1] == '<' && j < b.len() && b[j] == '>' {
                out.pop();
                // also drop a preceding `::` turbofish introducer
                if out.len() >= 2 && out[out.len() - 1] == ':' && out[out.len() - 2] == ':' {
                    out.pop();
                    out.pop();
                }
                i = j + 1;
                continue;
            }
            i = j;
            continue;
        }
        out.push(b[i]);
        i += 1;
    }
    out.into_iter().collect()
}

impl<'tcx> Cx<'tcx> {
    /// Normalise a printed path/type: `crate::` -> `<krate>::`, lifetimes removed.
    pub fn norm(&self, s: &str) -> String {
        let s = strip_lifetimes(s);
        replace_crate(&s, &self.krate)
    }

    pub fn path(&self, did: DefId) -> String {
        let tcx = self.tcx;
        if matches!(tcx.def_kind(did), DefKind::Closure | DefKind::InlineConst | DefKind::AnonConst) {
            let parent = tcx.parent(did);
            let dp = tcx.def_path(did);
            let last = dp
                .data
                .last()
                .map(|d| {
                    let n = match d.data.name() {
                        rustc_hir::definitions::DefPathDataName::Named(s) => s.to_string(),
                        rustc_hir::definitions::DefPathDataName::Anon { namespace } => {
                            namespace.to_string()
                        }
                    };
                    format!("{{{}#{}}}", n, d.disambiguator)
                })
                .unwrap_or_default();
            return format!("{}::{}", self.path(parent), last);
        }
        // items of the other workspace crate: print the defining path, not the path they are re-exported
        // under (`capsule::capsules::X` vs `capsule::close_wt_session::X`), so that cross-crate call edges resolve
        let s = if self.is_foreign_workspace(did) {
            ty::print::with_crate_prefix!(ty::print::with_no_trimmed_paths!(
                ty::print::with_no_visible_paths!(self.tcx.def_path_str(did))
            ))
        } else {
            ty::print::with_crate_prefix!(ty::print::with_no_trimmed_paths!(self.tcx.def_path_str(did)))
        };
        let s = strip_generics(&s);
        self.norm(&s)
    }

    pub fn is_foreign_workspace(&self, did: DefId) -> bool {
        if did.is_local() {
            return false;
        }
        let cn = self.tcx.crate_name(did.krate);
        let cn = cn.as_str();
        cn == "wtransport_proto" || cn == "wtransport"
    }

    pub fn path_with_args(&self, did: DefId, args: GenericArgsRef<'tcx>) -> String {
        let s = if self.is_foreign_workspace(did) {
            ty::print::with_crate_prefix!(ty::print::with_no_trimmed_paths!(
                ty::print::with_no_visible_paths!(self.tcx.def_path_str_with_args(did, args))
            ))
        } else {
            ty::print::with_crate_prefix!(ty::print::with_no_trimmed_paths!(
                self.tcx.def_path_str_with_args(did, args)
            ))
        };
        self.norm(&s)
    }

    pub fn loc(&self, sp: Span) -> String {
        if sp.is_dummy() {
            return "?".to_string();
        }
        let sm = self.tcx.sess.source_map();
        let lo = sm.lookup_char_pos(sp.lo());
        let name = match &lo.file.name {
            rustc_span::FileName::Real(r) => match r.local_path() {
                Some(p) => p.to_string_lossy().to_string(),
                None => format!("{:?}", lo.file.name),
            },
            other => format!("{:?}", other),
        };
        format!("{}:{}:{}", name, lo.line, lo.col.0 + 1)
    }

    /// Span information: `sp` = outermost call site (user code), `mac` = macro backtrace
    /// names (innermost first), `raw` = lexical location when it comes from an expansion.
    pub fn span_j(&self, sp: Span) -> J {
        let mut o = J::obj();
        if sp.from_expansion() {
            let cs = sp.source_callsite();
            o = o.ks("sp", self.loc(cs));
            let mut macs = Vec::new();
            for ed in sp.macro_backtrace() {
                let name = match ed.kind {
                    rustc_span::ExpnKind::Macro(_, n) => n.to_string(),
                    rustc_span::ExpnKind::Desugaring(d) => format!("desugar:{:?}", d),
                    rustc_span::ExpnKind::AstPass(p) => format!("astpass:{:?}", p),
                    rustc_span::ExpnKind::Root => "root".to_string(),
                };
                macs.push(J::s(name));
            }
            o = o.k("mac", J::Arr(macs));
            o = o.ks("raw", self.loc(sp));
        } else {
            o = o.ks("sp", self.loc(sp));
        }
        o.done()
    }

    pub fn ty_s(&self, t: Ty<'tcx>) -> String {
        let s = ty::print::with_crate_prefix!(ty::print::with_no_trimmed_paths!(format!("{}", t)));
        self.norm(&s)
    }

    /// Structured type tree (bounded depth).
    pub fn ty_j(&self, t: Ty<'tcx>, depth: usize) -> J {
        if depth == 0 {
            return J::obj().ks("k", "deep").ks("s", self.ty_s(t)).done();
        }
        match t.kind() {
            TyKind::Bool | TyKind::Char | TyKind::Int(_) | TyKind::Uint(_) | TyKind::Float(_)
            | TyKind::Str | TyKind::Never => J::obj().ks("k", "prim").ks("s", self.ty_s(t)).done(),
            TyKind::Adt(def, args) => {
                let targs: Vec<J> = args.types().map(|a| self.ty_j(a, depth - 1)).collect();
                let cargs: Vec<J> = args.consts().map(|c| J::s(format!("{}", c))).collect();
                let mut o = J::obj()
                    .ks("k", "adt")
                    .ks("did", self.path(def.did()))
                    .kb("local", def.did().is_local())
                    .k("args", J::Arr(targs));
                if !cargs.is_empty() {
                    o = o.k("cargs", J::Arr(cargs));
                }
                o.done()
            }
            TyKind::Coroutine(did, args) => {
                let upv: Vec<J> = args
                    .as_coroutine()
                    .upvar_tys()
                    .iter()
                    .map(|a| self.ty_j(a, depth - 1))
                    .collect();
                let parent: Vec<J> = args
                    .as_coroutine()
                    .parent_args()
                    .iter()
                    .filter_map(|a| a.as_type())
                    .map(|a| self.ty_j(a, depth - 1))
                    .collect();
                J::obj()
                    .ks("k", "cor")
                    .ks("did", self.path(*did))
                    .kb("local", did.is_local())
                    .k("upvars", J::Arr(upv))
                    .k("pargs", J::Arr(parent))
                    .done()
            }
            TyKind::Closure(did, args) => {
                let upv: Vec<J> = args
                    .as_closure()
                    .upvar_tys()
                    .iter()
                    .map(|a| self.ty_j(a, depth - 1))
                    .collect();
                J::obj()
                    .ks("k", "closure")
                    .ks("did", self.path(*did))
                    .kb("local", did.is_local())
                    .k("upvars", J::Arr(upv))
                    .done()
            }
            TyKind::CoroutineClosure(did, _args) => J::obj()
                .ks("k", "corclosure")
                .ks("did", self.path(*did))
                .done(),
            TyKind::Ref(_, inner, m) => J::obj()
                .ks("k", "ref")
                .kb("mut", m.is_mut())
                .k("t", self.ty_j(*inner, depth - 1))
                .done(),
            TyKind::RawPtr(inner, m) => J::obj()
                .ks("k", "ptr")
                .kb("mut", m.is_mut())
                .k("t", self.ty_j(*inner, depth - 1))
                .done(),
            TyKind::Tuple(ts) => J::obj()
                .ks("k", "tuple")
                .k("ts", J::Arr(ts.iter().map(|a| self.ty_j(a, depth - 1)).collect()))
                .done(),
            TyKind::Array(inner, n) => J::obj()
                .ks("k", "array")
                .k("t", self.ty_j(*inner, depth - 1))
                .ks("n", format!("{}", n))
                .done(),
            TyKind::Slice(inner) => J::obj()
                .ks("k", "slice")
                .k("t", self.ty_j(*inner, depth - 1))
                .done(),
            TyKind::FnDef(did, args) => J::obj()
                .ks("k", "fndef")
                .ks("did", self.path(*did))
                .k(
                    "args",
                    J::Arr(args.types().map(|a| self.ty_j(a, depth - 1)).collect()),
                )
                .done(),
            TyKind::Dynamic(..) => J::obj().ks("k", "dyn").ks("s", self.ty_s(t)).done(),
            TyKind::Param(_) => J::obj().ks("k", "param").ks("s", self.ty_s(t)).done(),
            _ => J::obj().ks("k", "other").ks("s", self.ty_s(t)).done(),
        }
    }

    // ---------------------------------------------------------------- constants

    fn scalar_int_j(&self, s: Scalar) -> Option<J> {
        match s {
            Scalar::Int(i) => {
                let size = i.size();
                if size.bytes() == 0 {
                    return Some(J::UInt(0));
                }
                Some(J::UInt(i.to_bits(size)))
            }
            Scalar::Ptr(..) => None,
        }
    }

    /// Read `len` bytes of an allocation starting at `off`.
    fn alloc_bytes(&self, aid: AllocId, off: u64, len: u64) -> Option<Vec<u8>> {
        match self.tcx.try_get_global_alloc(aid)? {
            GlobalAlloc::Memory(a) => {
                let a = a.inner();
                let total = a.len() as u64;
                if off + len > total {
                    return None;
                }
                let bytes = a.inspect_with_uninit_and_ptr_outside_interpreter(
                    (off as usize)..((off + len) as usize),
                );
                Some(bytes.to_vec())
            }
            _ => None,
        }
    }

    /// pointer stored at `off` in allocation `aid`: (target alloc, target offset)
    fn alloc_ptr(&self, aid: AllocId, off: u64) -> Option<(AllocId, u64)> {
        match self.tcx.try_get_global_alloc(aid)? {
            GlobalAlloc::Memory(a) => {
                let a = a.inner();
                let prov = a.provenance().ptrs().get(&rustc_abi::Size::from_bytes(off))?;
                let raw = self.alloc_bytes(aid, off, 8)?;
                let mut b = [0u8; 8];
                b.copy_from_slice(&raw);
                Some((prov.alloc_id(), u64::from_le_bytes(b)))
            }
            _ => None,
        }
    }

    /// Decode a value of type `t` stored in memory at (aid, off).
    fn mem_j(&self, aid: AllocId, off: u64, t: Ty<'tcx>, depth: usize) -> J {
        if depth == 0 {
            return J::s("<deep>");
        }
        let tcx = self.tcx;
        let env = TypingEnv::fully_monomorphized();
        let layout = match tcx.layout_of(env.as_query_input(t)) {
            Ok(l) => l,
            Err(_) => return J::s("<nolayout>"),
        };
        match t.kind() {
            TyKind::Bool | TyKind::Char | TyKind::Int(_) | TyKind::Uint(_) => {
                let n = layout.size.bytes();
                match self.alloc_bytes(aid, off, n) {
                    Some(raw) => {
                        let mut v: u128 = 0;
                        for (i, b) in raw.iter().enumerate() {
                            v |= (*b as u128) << (8 * i);
                        }
                        J::UInt(v)
                    }
                    None => J::s("<oob>"),
                }
            }
            TyKind::Ref(_, inner, _) => {
                let Some((taid, toff)) = self.alloc_ptr(aid, off) else {
                    return J::s("<noptr>");
                };
                match inner.kind() {
                    TyKind::Str => {
                        let len = self
                            .alloc_bytes(aid, off + 8, 8)
                            .map(|r| u64::from_le_bytes(r.try_into().unwrap()))
                            .unwrap_or(0);
                        match self.alloc_bytes(taid, toff, len) {
                            Some(b) => J::s(String::from_utf8_lossy(&b).to_string()),
                            None => J::s("<oob>"),
                        }
                    }
                    TyKind::Slice(el) => {
                        let len = self
                            .alloc_bytes(aid, off + 8, 8)
                            .map(|r| u64::from_le_bytes(r.try_into().unwrap()))
                            .unwrap_or(0);
                        let el_l = match tcx.layout_of(env.as_query_input(*el)) {
                            Ok(l) => l,
                            Err(_) => return J::s("<nolayout>"),
                        };
                        if matches!(el.kind(), TyKind::Uint(ty::UintTy::U8)) {
                            return match self.alloc_bytes(taid, toff, len) {
                                Some(b) => J::obj()
                                    .k("bytes", J::Arr(b.iter().map(|x| J::UInt(*x as u128)).collect()))
                                    .done(),
                                None => J::s("<oob>"),
                            };
                        }
                        let mut v = Vec::new();
                        for i in 0..len.min(4096) {
                            v.push(self.mem_j(taid, toff + i * el_l.size.bytes(), *el, depth - 1));
                        }
                        J::Arr(v)
                    }
                    _ => self.mem_j(taid, toff, *inner, depth - 1),
                }
            }
            TyKind::Array(el, n) => {
                let n = n.try_to_target_usize(tcx).unwrap_or(0);
                let el_l = match tcx.layout_of(env.as_query_input(*el)) {
                    Ok(l) => l,
                    Err(_) => return J::s("<nolayout>"),
                };
                if matches!(el.kind(), TyKind::Uint(ty::UintTy::U8)) {
                    return match self.alloc_bytes(aid, off, n) {
                        Some(b) => J::obj()
                            .k("bytes", J::Arr(b.iter().map(|x| J::UInt(*x as u128)).collect()))
                            .done(),
                        None => J::s("<oob>"),
                    };
                }
                let mut v = Vec::new();
                for i in 0..n.min(4096) {
                    v.push(self.mem_j(aid, off + i * el_l.size.bytes(), *el, depth - 1));
                }
                J::Arr(v)
            }
            TyKind::Tuple(ts) => {
                let mut v = Vec::new();
                for (i, ft) in ts.iter().enumerate() {
                    let fo = layout.fields.offset(i).bytes();
                    v.push(self.mem_j(aid, off + fo, ft, depth - 1));
                }
                J::Arr(v)
            }
            TyKind::Adt(def, args) if def.is_struct() => {
                let mut o = J::obj().ks("adt", self.path(def.did()));
                let mut fs = Vec::new();
                for (i, f) in def.non_enum_variant().fields.iter().enumerate() {
                    let ft = f.ty(tcx, args);
                    let fo = layout.fields.offset(i).bytes();
                    fs.push(self.mem_j(aid, off + fo, ft, depth - 1));
                }
                o = o.k("fields", J::Arr(fs));
                o.done()
            }
            _ => J::s(format!("<unsupported {}>", self.ty_s(t))),
        }
    }

    pub fn const_value_j(&self, v: ConstValue, t: Ty<'tcx>) -> J {
        let tcx = self.tcx;
        let mut o = J::obj().ks("ty", self.ty_s(t));
        let disp = ty::print::with_no_trimmed_paths!(format!("{}", Const::Val(v, t)));
        o = o.ks("disp", disp);
        match v {
            ConstValue::Scalar(s) => {
                if let Some(i) = self.scalar_int_j(s) {
                    o = o.k("int", i);
                } else if let Scalar::Ptr(p, _) = s {
                    // reference to static memory: decode by pointee type
                    let (prov, off) = p.into_raw_parts();
                    let aid = prov.alloc_id();
                    if let Some(GlobalAlloc::Static(sdid)) = self.tcx.try_get_global_alloc(aid) {
                        o = o.ks("static", self.path(sdid));
                    } else if let TyKind::Ref(_, inner, _) = t.kind() {
                        o = o.k("mem", self.mem_j(aid, off.bytes(), *inner, 6));
                    }
                }
            }
            ConstValue::ZeroSized => {
                o = o.kb("zst", true);
                if let TyKind::FnDef(did, args) = t.kind() {
                    o = o.ks("fn", self.path(*did));
                    o = o.ks("fn_full", self.path_with_args(*did, args));
                }
            }
            ConstValue::Slice { alloc_id, meta } => {
                if let Some(b) = self.alloc_bytes(alloc_id, 0, meta) {
                    match t.kind() {
                        TyKind::Ref(_, inner, _) if matches!(inner.kind(), TyKind::Str) => {
                            o = o.ks("str", String::from_utf8_lossy(&b).to_string());
                        }
                        _ => {
                            o = o.k(
                                "bytes",
                                J::Arr(b.iter().map(|x| J::UInt(*x as u128)).collect()),
                            );
                        }
                    }
                }
            }
            ConstValue::Indirect { alloc_id, offset } => {
                o = o.k("mem", self.mem_j(alloc_id, offset.bytes(), t, 6));
            }
        }
        let _ = tcx;
        o.done()
    }

    pub fn const_j(&self, c: &Const<'tcx>, owner: DefId) -> J {
        let tcx = self.tcx;
        match c {
            Const::Val(v, t) => {
                let j = self.const_value_j(*v, *t);
                // a function item used as a value (`.map(IdleTimeout::try_from)`): record the impl method it resolves to,
                // like `callee_j` does for direct calls, so that both spellings name the same callee
                if let TyKind::FnDef(did, args) = t.kind() {
                    let env = TypingEnv::post_analysis(tcx, owner);
                    if let Ok(Some(inst)) = Instance::try_resolve(tcx, env, *did, args) {
                        let rd = inst.def_id();
                        if rd != *did {
                            if let J::Obj(mut kv) = j {
                                kv.push(("fn_resolved".to_string(), J::s(self.path(rd))));
                                return J::Obj(kv);
                            }
                            return j;
                        }
                    }
                }
                j
            }
            Const::Unevaluated(uv, t) => {
                let mut o = J::obj().ks("ty", self.ty_s(*t)).ks("uneval", self.path(uv.def));
                if uv.promoted.is_some() {
                    o = o.kb("promoted", true);
                }
                let env = TypingEnv::post_analysis(tcx, owner);
                if let Ok(v) = c.eval(tcx, env, rustc_span::DUMMY_SP) {
                    o = o.k("val", self.const_value_j(v, *t));
                }
                o.done()
            }
            Const::Ty(t, ct) => {
                let mut o = J::obj().ks("ty", self.ty_s(*t)).ks("tyconst", format!("{}", ct));
                if let Some(v) = ct.try_to_target_usize(tcx) {
                    o = o.k("int", J::UInt(v as u128));
                } else if let Some(val) = ct.try_to_value() {
                    // constants of other integer widths (e.g. the bounds of a `u64` range pattern)
                    if let Some(leaf) = val.try_to_leaf() {
                        if matches!(t.kind(), TyKind::Uint(_) | TyKind::Bool | TyKind::Char) {
                            o = o.k("int", J::UInt(leaf.to_bits_unchecked()));
                        }
                    }
                }
                o.done()
            }
        }
    }

    // ---------------------------------------------------------------- MIR

    fn place_j(&self, body: &Body<'tcx>, p: &Place<'tcx>) -> J {
        let mut proj = Vec::new();
        let mut pty = mir::PlaceTy::from_ty(body.local_decls[p.local].ty);
        for e in p.projection.iter() {
            let mut fname: Option<String> = None;
            if let ProjectionElem::Field(f, _) = e {
                if let TyKind::Adt(def, _) = pty.ty.kind() {
                    let vi = match pty.variant_index {
                        Some(v) => Some(v),
                        None => {
                            if def.is_enum() {
                                None
                            } else {
                                Some(rustc_abi::FIRST_VARIANT)
                            }
                        }
                    };
                    if let Some(vi) = vi {
                        if let Some(fd) = def.variant(vi).fields.get(f) {
                            fname = Some(fd.name.to_string());
                        }
                    }
                }
            }
            pty = pty.projection_ty(self.tcx, e);
            let j = match e {
                ProjectionElem::Deref => J::s("*"),
                ProjectionElem::Field(f, t) => J::obj()
                    .ki("f", f.index())
                    .ks("ty", self.ty_s(t))
                    .opt("n", fname.map(J::s))
                    .done(),
                ProjectionElem::Downcast(name, idx) => J::obj()
                    .ks("dc", name.map(|n| n.to_string()).unwrap_or_default())
                    .ki("v", idx.index())
                    .done(),
                ProjectionElem::Index(l) => J::obj().ki("idx", l.index()).done(),
                ProjectionElem::ConstantIndex { offset, min_length, from_end } => J::obj()
                    .k("cidx", J::UInt(offset as u128))
                    .k("min", J::UInt(min_length as u128))
                    .kb("from_end", from_end)
                    .done(),
                ProjectionElem::Subslice { from, to, from_end } => J::obj()
                    .k("sub_from", J::UInt(from as u128))
                    .k("sub_to", J::UInt(to as u128))
                    .kb("from_end", from_end)
                    .done(),
                other => J::s(format!("{:?}", other)),
            };
            proj.push(j);
        }
        J::obj().ki("l", p.local.index()).k("p", J::Arr(proj)).done()
    }

    fn operand_j(&self, body: &Body<'tcx>, op: &Operand<'tcx>, owner: DefId) -> J {
        match op {
            Operand::Copy(p) => J::obj().ks("k", "copy").k("pl", self.place_j(body, p)).done(),
            Operand::Move(p) => J::obj().ks("k", "move").k("pl", self.place_j(body, p)).done(),
            Operand::Constant(c) => J::obj()
                .ks("k", "const")
                .k("c", self.const_j(&c.const_, owner))
                .done(),
            #[allow(unreachable_patterns)]
            other => J::obj().ks("k", "other").ks("s", format!("{:?}", other)).done(),
        }
    }

    fn rvalue_j(&self, body: &Body<'tcx>, rv: &Rvalue<'tcx>, owner: DefId) -> J {
        match rv {
            Rvalue::Use(op, ..) => J::obj().ks("k", "use").k("op", self.operand_j(body, op, owner)).done(),
            Rvalue::Repeat(op, n) => J::obj()
                .ks("k", "repeat")
                .k("op", self.operand_j(body, op, owner))
                .ks("n", format!("{}", n))
                .opt("ni", n.try_to_target_usize(self.tcx).map(|v| J::UInt(v as u128)))
                .done(),
            Rvalue::Ref(_, bk, p) => J::obj()
                .ks("k", "ref")
                .kb("mut", matches!(bk, BorrowKind::Mut { .. }))
                .k("pl", self.place_j(body, p))
                .done(),
            Rvalue::RawPtr(_, p) => J::obj().ks("k", "rawptr").k("pl", self.place_j(body, p)).done(),
            Rvalue::Cast(kind, op, t) => J::obj()
                .ks("k", "cast")
                .ks(
                    "ck",
                    match kind {
                        CastKind::IntToInt => "IntToInt".to_string(),
                        CastKind::Transmute => "Transmute".to_string(),
                        other => format!("{:?}", other),
                    },
                )
                .k("op", self.operand_j(body, op, owner))
                .ks("ty", self.ty_s(*t))
                .done(),
            Rvalue::BinaryOp(op, ab) => J::obj()
                .ks("k", "bin")
                .ks("op", format!("{:?}", op))
                .k("a", self.operand_j(body, &ab.0, owner))
                .k("b", self.operand_j(body, &ab.1, owner))
                .done(),
            Rvalue::UnaryOp(op, a) => J::obj()
                .ks("k", "un")
                .ks("op", format!("{:?}", op))
                .k("a", self.operand_j(body, a, owner))
                .done(),
            Rvalue::Discriminant(p) => {
                let mut o = J::obj().ks("k", "discr").k("pl", self.place_j(body, p));
                let pty = p.ty(&body.local_decls, self.tcx).ty;
                o = o.ks("ty", self.ty_s(pty));
                if let TyKind::Adt(def, _) = pty.kind() {
                    if def.is_enum() {
                        o = o.ks("adt", self.path(def.did()));
                        let mut vn = Vec::new();
                        for (vi, v) in def.variants().iter_enumerated() {
                            let d = def.discriminant_for_variant(self.tcx, vi).val;
                            vn.push(J::Arr(vec![J::UInt(d), J::s(v.name.to_string())]));
                        }
                        o = o.k("vnames", J::Arr(vn));
                    }
                }
                o.done()
            }
            Rvalue::Aggregate(kind, ops) => {
                let mut o = J::obj().ks("k", "agg");
                match &**kind {
                    AggregateKind::Array(t) => {
                        o = o.ks("ak", "array").ks("ty", self.ty_s(*t));
                    }
                    AggregateKind::Tuple => {
                        o = o.ks("ak", "tuple");
                    }
                    AggregateKind::Adt(did, variant, args, _, _) => {
                        let def = self.tcx.adt_def(*did);
                        let v = def.variant(*variant);
                        o = o
                            .ks("ak", "adt")
                            .ks("adt", self.path(*did))
                            .ks("variant", v.name.to_string())
                            .ki("vi", variant.index())
                            .kb("is_enum", def.is_enum())
                            .ks("full", self.path_with_args(*did, args));
                    }
                    AggregateKind::Closure(did, _) => {
                        o = o.ks("ak", "closure").ks("did", self.path(*did));
                    }
                    AggregateKind::Coroutine(did, _) => {
                        o = o.ks("ak", "coroutine").ks("did", self.path(*did));
                    }
                    AggregateKind::CoroutineClosure(did, _) => {
                        o = o.ks("ak", "corclosure").ks("did", self.path(*did));
                    }
                    AggregateKind::RawPtr(t, _) => {
                        o = o.ks("ak", "rawptr").ks("ty", self.ty_s(*t));
                    }
                }
                o.k(
                    "ops",
                    J::Arr(ops.iter().map(|x| self.operand_j(body, x, owner)).collect()),
                )
                .done()
            }
            Rvalue::CopyForDeref(p) => J::obj()
                .ks("k", "use")
                .k("op", J::obj().ks("k", "copy").k("pl", self.place_j(body, p)).done())
                .done(),
            other => J::obj().ks("k", "other").ks("s", format!("{:?}", other)).done(),
        }
    }

    fn callee_j(&self, body: &Body<'tcx>, func: &Operand<'tcx>, owner: DefId) -> J {
        let tcx = self.tcx;
        if let Operand::Constant(c) = func {
            if let TyKind::FnDef(did, args) = c.const_.ty().kind() {
                let mut o = J::obj()
                    .ks("path", self.path(*did))
                    .ks("full", self.path_with_args(*did, args))
                    .k(
                        "targs",
                        J::Arr(args.types().map(|a| J::s(self.ty_s(a))).collect()),
                    )
                    .k(
                        "targs_j",
                        J::Arr(args.types().map(|a| self.ty_j(a, 5)).collect()),
                    );
                let cargs: Vec<J> = args
                    .consts()
                    .map(|c| match c.try_to_target_usize(tcx) {
                        Some(v) => J::UInt(v as u128),
                        None => J::s(format!("{}", c)),
                    })
                    .collect();
                if !cargs.is_empty() {
                    o = o.k("cargs", J::Arr(cargs));
                }
                if let Some(tr) = tcx.trait_of_assoc(*did) {
                    o = o.ks("trait", self.path(tr));
                }
                let env = TypingEnv::post_analysis(tcx, owner);
                if let Ok(Some(inst)) = Instance::try_resolve(tcx, env, *did, args) {
                    let rd = inst.def_id();
                    if rd != *did {
                        o = o.ks("resolved", self.path(rd));
                    }
                    o = o.ks("inst", format!("{:?}", inst.def).chars().take(40).collect::<String>());
                }
                return o.done();
            }
        }
        J::obj()
            .ks("indirect", format!("{:?}", func))
            .k("op", self.operand_j(body, func, owner))
            .done()
    }

    fn unwind_j(&self, u: &UnwindAction) -> J {
        match u {
            UnwindAction::Cleanup(bb) => J::UInt(bb.index() as u128),
            _ => J::Null,
        }
    }

    fn block_j(&mut self, body: &Body<'tcx>, bb: &BasicBlockData<'tcx>, owner: DefId) -> J {
        let mut stmts = Vec::new();
        for st in &bb.statements {
            match &st.kind {
                StatementKind::Assign(b) => {
                    let (pl, rv) = &**b;
                    stmts.push(
                        J::obj()
                            .ks("k", "assign")
                            .k("pl", self.place_j(body, pl))
                            .k("rv", self.rvalue_j(body, rv, owner))
                            .k("at", self.span_j(st.source_info.span))
                            .done(),
                    );
                }
                StatementKind::SetDiscriminant { place, variant_index } => {
                    stmts.push(
                        J::obj()
                            .ks("k", "setdiscr")
                            .k("pl", self.place_j(body, place))
                            .ki("v", variant_index.index())
                            .done(),
                    );
                }
                StatementKind::StorageLive(_)
                | StatementKind::StorageDead(_)
                | StatementKind::Nop
                | StatementKind::FakeRead(..)
                | StatementKind::AscribeUserType(..)
                | StatementKind::Coverage(..)
                | StatementKind::ConstEvalCounter
                | StatementKind::PlaceMention(..)
                | StatementKind::BackwardIncompatibleDropHint { .. } => {}
                other => {
                    stmts.push(J::obj().ks("k", "other").ks("s", format!("{:?}", other)).done());
                }
            }
        }
        let term = bb.terminator();
        let at = self.span_j(term.source_info.span);
        let t = match &term.kind {
            TerminatorKind::Goto { target } => J::obj().ks("k", "goto").ki("t", target.index()),
            TerminatorKind::SwitchInt { discr, targets } => {
                let mut arms = Vec::new();
                for (v, t) in targets.iter() {
                    arms.push(J::Arr(vec![J::UInt(v), J::UInt(t.index() as u128)]));
                }
                J::obj()
                    .ks("k", "switch")
                    .ks("dty", self.ty_s(discr.ty(&body.local_decls, self.tcx)))
                    .k("discr", self.operand_j(body, discr, owner))
                    .k("arms", J::Arr(arms))
                    .ki("otherwise", targets.otherwise().index())
            }
            TerminatorKind::Return => J::obj().ks("k", "return"),
            TerminatorKind::Unreachable => J::obj().ks("k", "unreachable"),
            TerminatorKind::UnwindResume => J::obj().ks("k", "resume"),
            TerminatorKind::UnwindTerminate(_) => J::obj().ks("k", "abort"),
            TerminatorKind::Drop { place, target, unwind, .. } => {
                let pty = place.ty(&body.local_decls, self.tcx).ty;
                J::obj()
                    .ks("k", "drop")
                    .k("pl", self.place_j(body, place))
                    .ks("ty", self.ty_s(pty))
                    .k("ty_j", self.ty_j(pty, 4))
                    .ki("t", target.index())
                    .k("unwind", self.unwind_j(unwind))
            }
            TerminatorKind::Call { func, args, destination, target, unwind, fn_span, .. } => {
                self.n_calls += 1;
                J::obj()
                    .ks("k", "call")
                    .k("f", self.callee_j(body, func, owner))
                    .k(
                        "args",
                        J::Arr(args.iter().map(|a| self.operand_j(body, &a.node, owner)).collect()),
                    )
                    .k("dest", self.place_j(body, destination))
                    .k(
                        "t",
                        match target {
                            Some(t) => J::UInt(t.index() as u128),
                            None => J::Null,
                        },
                    )
                    .k("unwind", self.unwind_j(unwind))
                    .k("fn_at", self.span_j(*fn_span))
            }
            TerminatorKind::TailCall { func, args, .. } => J::obj()
                .ks("k", "tailcall")
                .k("f", self.callee_j(body, func, owner))
                .k(
                    "args",
                    J::Arr(args.iter().map(|a| self.operand_j(body, &a.node, owner)).collect()),
                ),
            TerminatorKind::Assert { cond, expected, msg, target, unwind } => {
                self.n_asserts += 1;
                let (mk, mops): (String, Vec<J>) = match &**msg {
                    AssertKind::BoundsCheck { len, index } => (
                        "BoundsCheck".into(),
                        vec![self.operand_j(body, len, owner), self.operand_j(body, index, owner)],
                    ),
                    AssertKind::Overflow(op, a, b) => (
                        format!("Overflow({:?})", op),
                        vec![self.operand_j(body, a, owner), self.operand_j(body, b, owner)],
                    ),
                    AssertKind::OverflowNeg(a) => ("OverflowNeg".into(), vec![self.operand_j(body, a, owner)]),
                    AssertKind::DivisionByZero(a) => {
                        ("DivisionByZero".into(), vec![self.operand_j(body, a, owner)])
                    }
                    AssertKind::RemainderByZero(a) => {
                        ("RemainderByZero".into(), vec![self.operand_j(body, a, owner)])
                    }
                    AssertKind::ResumedAfterReturn(_) => ("ResumedAfterReturn".into(), vec![]),
                    AssertKind::ResumedAfterPanic(_) => ("ResumedAfterPanic".into(), vec![]),
                    AssertKind::ResumedAfterDrop(_) => ("ResumedAfterDrop".into(), vec![]),
                    AssertKind::MisalignedPointerDereference { .. } => ("Misaligned".into(), vec![]),
                    AssertKind::NullPointerDereference => ("NullDeref".into(), vec![]),
                    AssertKind::InvalidEnumConstruction(_) => ("InvalidEnum".into(), vec![]),
                };
                J::obj()
                    .ks("k", "assert")
                    .k("cond", self.operand_j(body, cond, owner))
                    .kb("expected", *expected)
                    .ks("msg", mk)
                    .k("mops", J::Arr(mops))
                    .ki("t", target.index())
                    .k("unwind", self.unwind_j(unwind))
            }
            TerminatorKind::Yield { value, resume, resume_arg, drop } => J::obj()
                .ks("k", "yield")
                .k("value", self.operand_j(body, value, owner))
                .ki("resume", resume.index())
                .k("resume_arg", self.place_j(body, resume_arg))
                .k(
                    "drop",
                    match drop {
                        Some(d) => J::UInt(d.index() as u128),
                        None => J::Null,
                    },
                ),
            TerminatorKind::CoroutineDrop => J::obj().ks("k", "cordrop"),
            TerminatorKind::FalseEdge { real_target, .. } => {
                J::obj().ks("k", "goto").ki("t", real_target.index())
            }
            TerminatorKind::FalseUnwind { real_target, .. } => {
                J::obj().ks("k", "goto").ki("t", real_target.index())
            }
            TerminatorKind::InlineAsm { .. } => J::obj().ks("k", "asm"),
        };
        J::obj()
            .k("s", J::Arr(stmts))
            .k("t", t.k("at", at).done())
            .kb("cleanup", bb.is_cleanup)
            .done()
    }

    pub fn body_j(&mut self, body: &Body<'tcx>, owner: DefId) -> J {
        // local decls with user names
        let mut names: Vec<Option<String>> = vec![None; body.local_decls.len()];
        for vdi in &body.var_debug_info {
            if let mir::VarDebugInfoContents::Place(p) = &vdi.value {
                if p.projection.is_empty() {
                    names[p.local.index()] = Some(vdi.name.to_string());
                }
            }
        }
        let mut locals = Vec::new();
        for (i, d) in body.local_decls.iter().enumerate() {
            let mut o = J::obj().ks("ty", self.ty_s(d.ty)).k("ty_j", self.ty_j(d.ty, 5));
            if let Some(n) = &names[i] {
                o = o.ks("name", n.clone());
            }
            locals.push(o.done());
        }
        // upvar debug names (closures / coroutines): place = _1.field or (*_1).field
        let mut upnames = Vec::new();
        for vdi in &body.var_debug_info {
            if let mir::VarDebugInfoContents::Place(p) = &vdi.value {
                if !p.projection.is_empty() {
                    upnames.push(
                        J::obj()
                            .ks("name", vdi.name.to_string())
                            .k("pl", self.place_j(body, p))
                            .done(),
                    );
                }
            }
        }
        let mut blocks = Vec::new();
        for bb in body.basic_blocks.iter() {
            self.n_blocks += 1;
            blocks.push(self.block_j(body, bb, owner));
        }
        J::obj()
            .ki("argc", body.arg_count)
            .k("locals", J::Arr(locals))
            .k("upnames", J::Arr(upnames))
            .k("blocks", J::Arr(blocks))
            .done()
    }
}

// ------------------------------------------------------------------------- top level

fn vis_s<'tcx>(tcx: TyCtxt<'tcx>, did: DefId) -> String {
    match tcx.def_kind(did) {
        DefKind::Fn | DefKind::AssocFn | DefKind::Const { .. } | DefKind::AssocConst { .. } | DefKind::Static { .. }
        | DefKind::Struct | DefKind::Enum | DefKind::Union | DefKind::Field | DefKind::Ctor(..)
        | DefKind::Trait | DefKind::TyAlias | DefKind::Mod | DefKind::Variant => {
            let v = tcx.visibility(did);
            match v {
                ty::Visibility::Public => "pub".to_string(),
                ty::Visibility::Restricted(m) => {
                    if m.is_crate_root() {
                        "crate".to_string()
                    } else {
                        format!("in:{}", tcx.def_path_str(m))
                    }
                }
            }
        }
        _ => "n/a".to_string(),
    }
}

impl<'tcx> Cx<'tcx> {
    fn coroutine_layout_j(&mut self, body: &Body<'tcx>) -> Option<J> {
        let layout = body.coroutine_layout_raw()?;
        let mut fields = Vec::new();
        for (i, f) in layout.field_tys.iter_enumerated() {
            let mut o = J::obj()
                .ki("i", i.index())
                .ks("ty", self.ty_s(f.ty))
                .k("ty_j", self.ty_j(f.ty, 8))
                .k("at", self.span_j(f.source_info.span))
                .kb("ignore_for_traits", f.ignore_for_traits);
            if let Some(n) = layout.field_names.get(i).and_then(|n| *n) {
                o = o.ks("name", n.to_string());
            }
            fields.push(o.done());
        }
        let mut variants = Vec::new();
        for (vi, vf) in layout.variant_fields.iter_enumerated() {
            let sp = layout.variant_source_info[vi].span;
            variants.push(
                J::obj()
                    .ki("v", vi.index())
                    .k("fields", J::Arr(vf.iter().map(|f| J::UInt(f.index() as u128)).collect()))
                    .k("at", self.span_j(sp))
                    .done(),
            );
        }
        Some(J::obj().k("fields", J::Arr(fields)).k("variants", J::Arr(variants)).done())
    }
}

pub fn extract<'tcx>(tcx: TyCtxt<'tcx>, krate: &str, tag: &str, nonce: &str) -> J {
    let mut cx = Cx {
        tcx,
        krate: krate.to_string(),
        n_fns: 0,
        n_blocks: 0,
        n_calls: 0,
        n_asserts: 0,
        n_coroutines: 0,
        n_consts: 0,
    };

    let mut fns = Vec::new();
    let mut consts = Vec::new();

    let owners: Vec<LocalDefId> = tcx.hir_body_owners().collect();
    for ldid in owners {
        let did = ldid.to_def_id();
        let kind = tcx.def_kind(did);
        match kind {
            DefKind::Fn | DefKind::AssocFn | DefKind::Closure => {
                let is_coroutine = tcx.is_coroutine(did);
                let mut o = J::obj()
                    .ks("path", cx.path(did))
                    .ks("kind", format!("{:?}", kind))
                    .k("at", cx.span_j(tcx.def_span(did)))
                    .ks("vis", vis_s(tcx, did))
                    .kb("coroutine", is_coroutine);
                if matches!(kind, DefKind::Fn | DefKind::AssocFn) {
                    let sig = tcx.fn_sig(did).skip_binder().skip_binder();
                    o = o
                        .kb("unsafe", !sig.safety().is_safe())
                        .kb("const", tcx.is_const_fn(did))
                        .kb("async", tcx.asyncness(did).is_async())
                        .ks("sig", ty::print::with_no_trimmed_paths!(format!("{}", sig)));
                    if let Some(imp) = tcx.impl_of_assoc(did) {
                        let self_ty = tcx.type_of(imp).instantiate_identity().skip_norm_wip();
                        o = o.ks("impl_self", cx.ty_s(self_ty));
                        o = o.k("impl_self_j", cx.ty_j(self_ty, 5));
                        if let Some(tr) = tcx.impl_opt_trait_ref(imp) {
                            let tr = tr.instantiate_identity().skip_norm_wip();
                            o = o.ks("impl_trait", cx.path(tr.def_id));
                        }
                    }
                    if let Some(tr) = tcx.trait_of_assoc(did) {
                        o = o.ks("in_trait", cx.path(tr));
                    }
                } else {
                    o = o.ks("parent", cx.path(tcx.parent(did)));
                }
                let g = tcx.generics_of(did);
                o = o.ki("n_generics", g.count());
                // pre-transform body (logical CFG with Yield terminators) for coroutines
                if is_coroutine {
                    // make sure the (overridden) query ran, then read our saved copy
                    let _ = tcx.mir_promoted(ldid);
                    if let Some(pre) = crate::saved_pre_body(tcx, ldid) {
                        o = o.k("pre", cx.body_j(pre, did));
                    }
                }
                let body = tcx.optimized_mir(did);
                if is_coroutine {
                    cx.n_coroutines += 1;
                    if let Some(l) = cx.coroutine_layout_j(body) {
                        o = o.k("layout", l);
                    }
                    // keep the post-transform body too (small subset of rules use it)
                    o = o.k("post", cx.body_j(body, did));
                } else {
                    o = o.k("body", cx.body_j(body, did));
                }
                cx.n_fns += 1;
                fns.push(o.done());
            }
            DefKind::Const { .. } | DefKind::AssocConst { .. } | DefKind::Static { .. } => {
                let g = tcx.generics_of(did);
                let t = tcx.type_of(did).instantiate_identity().skip_norm_wip();
                let mut o = J::obj()
                    .ks("path", cx.path(did))
                    .ks("kind", format!("{:?}", kind))
                    .k("at", cx.span_j(tcx.def_span(did)))
                    .ks("vis", vis_s(tcx, did))
                    .ks("ty", cx.ty_s(t));
                if !g.requires_monomorphization(tcx) && !matches!(kind, DefKind::Static { .. }) {
                    if let Ok(v) = tcx.const_eval_poly(did) {
                        o = o.k("val", cx.const_value_j(v, t));
                    }
                }
                cx.n_consts += 1;
                consts.push(o.done());
            }
            _ => {}
        }
    }

    // ADTs, impls, traits
    let mut adts = Vec::new();
    let mut impls = Vec::new();
    for id in tcx.hir_free_items() {
        let did = id.owner_id.to_def_id();
        match tcx.def_kind(did) {
            DefKind::Struct | DefKind::Enum | DefKind::Union => {
                let def = tcx.adt_def(did);
                let mut variants = Vec::new();
                for (vi, v) in def.variants().iter_enumerated() {
                    let mut fields = Vec::new();
                    for f in v.fields.iter() {
                        let ft = tcx.type_of(f.did).instantiate_identity().skip_norm_wip();
                        fields.push(
                            J::obj()
                                .ks("name", f.name.to_string())
                                .ks("vis", vis_s(tcx, f.did))
                                .ks("ty", cx.ty_s(ft))
                                .k("ty_j", cx.ty_j(ft, 6))
                                .done(),
                        );
                    }
                    let discr = if def.is_enum() {
                        Some(J::UInt(def.discriminant_for_variant(tcx, vi).val))
                    } else {
                        None
                    };
                    variants.push(
                        J::obj()
                            .ks("name", v.name.to_string())
                            .ki("i", vi.index())
                            .opt("discr", discr)
                            .k("fields", J::Arr(fields))
                            .done(),
                    );
                }
                adts.push(
                    J::obj()
                        .ks("path", cx.path(did))
                        .ks("kind", format!("{:?}", tcx.def_kind(did)))
                        .ks("vis", vis_s(tcx, did))
                        .k("at", cx.span_j(tcx.def_span(did)))
                        .k("variants", J::Arr(variants))
                        .done(),
                );
            }
            DefKind::Impl { .. } => {
                let self_ty = tcx.type_of(did).instantiate_identity().skip_norm_wip();
                let mut o = J::obj()
                    .ks("self", cx.ty_s(self_ty))
                    .k("self_j", cx.ty_j(self_ty, 5))
                    .k("at", cx.span_j(tcx.def_span(did)));
                if let Some(tr) = tcx.impl_opt_trait_ref(did) {
                    let tr = tr.instantiate_identity().skip_norm_wip();
                    o = o.ks("trait", cx.path(tr.def_id));
                    o = o.ks("trait_full", ty::print::with_no_trimmed_paths!(format!("{}", tr)));
                }
                let items: Vec<J> = tcx
                    .associated_item_def_ids(did)
                    .iter()
                    .map(|d| J::s(cx.path(*d)))
                    .collect();
                o = o.k("items", J::Arr(items));
                impls.push(o.done());
            }
            _ => {}
        }
    }

    let _ = LOCAL_CRATE;
    J::obj()
        .ks("crate", krate)
        .ks("tag", tag)
        .ks("nonce", nonce)
        .k(
            "counts",
            J::obj()
                .ki("fns", cx.n_fns)
                .ki("blocks", cx.n_blocks)
                .ki("calls", cx.n_calls)
                .ki("asserts", cx.n_asserts)
                .ki("coroutines", cx.n_coroutines)
                .ki("consts", cx.n_consts)
                .done(),
        )
        .k("fns", J::Arr(fns))
        .k("consts", J::Arr(consts))
        .k("adts", J::Arr(adts))
        .k("impls", J::Arr(impls))
        .done()
}
