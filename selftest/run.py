#!/usr/bin/env python3
"""Test the checker both ways: apply each mutant (small edit that still compiles) to a scratch
copy of /repo outside /repo and /verif, run the property's check against it, expect a VIOLATION
that names the mutated construct. Usage: selftest/run.py [--only <substr>] [--prop Cxx] [--keep]"""
import json
import os
import re
import shutil
import subprocess
import sys
import tempfile
import time

HERE = os.path.dirname(os.path.abspath(__file__))
VERIF = os.path.dirname(HERE)
REPO = "/repo"
SCRATCH = os.environ.get("WT_SCRATCH") or tempfile.mkdtemp(prefix="wt-selftest-")


FROM_HEAD = "--from-head" in sys.argv  # harness use only: copy /repo's HEAD commit instead of its working tree


def copy_repo(dst):
    if os.path.exists(dst):
        shutil.rmtree(dst)
    os.makedirs(dst)
    if FROM_HEAD:
        subprocess.run("git -C /repo archive HEAD | tar -x -C %s && cp /repo/Cargo.lock %s/" % (dst, dst), shell=True, check=True)
        return
    for name in os.listdir(REPO):
        if name in ("target", ".git"):
            continue
        s = os.path.join(REPO, name)
        d = os.path.join(dst, name)
        if os.path.isdir(s):
            shutil.copytree(s, d)
        else:
            shutil.copy2(s, d)


def seeds():
    """the kept seeded changes (seeded/<id>/patch.diff, written by independent sub-agents) as additional mutants"""
    out = []
    sd = os.path.join(VERIF, "seeded")
    for d in sorted(os.listdir(sd)):
        mp = os.path.join(sd, d, "meta.json")
        if os.path.exists(mp):
            meta = json.load(open(mp))
            out.append({"name": "seed:" + d, "props": [meta["breaks_property"]], "patch": os.path.join(sd, d, "patch.diff")})
    return out


def apply(dst, m):
    if m.get("patch"):
        r = subprocess.run(["patch", "-p1", "-s", "-i", m["patch"]], cwd=dst, stdout=subprocess.PIPE, stderr=subprocess.STDOUT, text=True)
        if r.returncode != 0:
            raise RuntimeError("mutant %s: patch does not apply: %s" % (m["name"], r.stdout[-200:]))
        return
    edits = m.get("edits") or [m]
    for e in edits:
        p = os.path.join(dst, e["file"])
        s = open(p).read()
        cnt = s.count(e["old"])
        if cnt < 1:
            raise RuntimeError("mutant %s: pattern not found in %s" % (m["name"], e["file"]))
        if e.get("all"):
            s = s.replace(e["old"], e["new"])
        else:
            idx = e.get("nth", 0)
            pos = -1
            for _ in range(idx + 1):
                pos = s.find(e["old"], pos + 1)
            if pos < 0:
                raise RuntimeError("mutant %s: occurrence %d not found" % (m["name"], idx))
            s = s[:pos] + e["new"] + s[pos + len(e["old"]):]
        open(p, "w").write(s)


def main():
    args = sys.argv[1:]
    only = None
    prop = None
    out_json = None
    i = 0
    while i < len(args):
        if args[i] == "--only":
            only = args[i + 1]; i += 2
        elif args[i] == "--prop":
            prop = args[i + 1]; i += 2
        elif args[i] == "--json":
            out_json = args[i + 1]; i += 2
        else:
            i += 1
    mutants = json.load(open(os.path.join(HERE, "mutants.json"))) + seeds()
    res = []
    dst = os.path.join(SCRATCH, "repo")
    evdir = os.path.join(SCRATCH, "evidence")
    budget = float(os.environ.get("WT_SELFTEST_BUDGET_S", "0") or 0)   # 0 = no limit; the thorough tier of ./check sets one
    t_start = time.time()
    for m in mutants:
        if only and only not in m["name"]:
            continue
        if prop and prop not in m["props"]:
            continue
        if budget and time.time() - t_start > budget:
            res.append({"name": m["name"], "status": "skipped", "why": "time budget of %ds used up" % budget})
            continue
        t0 = time.time()
        copy_repo(dst)
        try:
            apply(dst, m)
        except RuntimeError as e:
            res.append({"name": m["name"], "status": "skipped", "why": str(e)})
            print("SKIP  %-50s %s" % (m["name"], e))
            continue
        for pid in m["props"]:
            if prop and pid != prop:
                continue
            env = dict(os.environ, WT_REPO=dst, WT_EVIDENCE_DIR=evdir)
            r = subprocess.run([os.path.join(VERIF, "check"), pid], env=env, stdout=subprocess.PIPE, stderr=subprocess.STDOUT, text=True, cwd=VERIF)
            out = r.stdout
            fired = r.returncode == 1 and "VIOLATION property=%s" % pid in out
            cannot = "cannot decide" in out and "does not compile" in out
            named = True
            if m.get("expect"):
                named = re.search(m["expect"], out) is not None
            status = "detected" if fired and named and not cannot else ("compile-error" if cannot else ("fired-unnamed" if fired else "MISSED"))
            res.append({"name": m["name"], "prop": pid, "status": status, "s": round(time.time() - t0, 1)})
            first = [l for l in out.splitlines() if "violation:" in l][:1]
            print("%-13s %-50s %s %s" % (status, m["name"], pid, (first[0][:160] if first else "")))
    shutil.rmtree(SCRATCH, ignore_errors=True)
    det = sum(1 for r in res if r["status"] == "detected")
    print("selftest: %d/%d detected" % (det, len([r for r in res if r["status"] != "skipped"])))
    if out_json:
        json.dump(res, open(out_json, "w"), indent=1)
    elif not only and not prop:
        json.dump(res, open(os.path.join(HERE, "last_result.json"), "w"), indent=1)
    return 0


if __name__ == "__main__":
    sys.exit(main())
